//go:build verif
// +build verif

package backend

// VerifConnNumRaw reads the active-connection counter without taking the lock
// (harness-only; used by scheduler invariants, which run when nothing else does).
//
//go:norace
func (back *BfeBackend) VerifConnNumRaw() int { return back.connNum }
