//go:build verif
// +build verif

package backend

import (
	"errors"
	"fmt"
	"strings"
	"testing"
	"time"

	"verif/simrt"
	"verif/simrt/simnet"

	"github.com/bfenetworks/bfe/bfe_config/bfe_cluster_conf/cluster_conf"
	"github.com/bfenetworks/bfe/bfe_config/bfe_cluster_conf/cluster_table_conf"
)

func TestSim(t *testing.T) {
	simrt.Main(t, map[string]simrt.Prop{
		"C06": {Run: runC06, Opt: simrt.Options{MaxSteps: 40000, IdleLimit: 10 * time.Minute, MaxStepsClause: "C06.livelock"}},
	})
}

var errTwoCheckers = errors.New("C06.single_checker: more than one health checker is running for one backend")

type probeRec struct {
	task string
	seq  uint64
	at   time.Duration
	ok   bool
	kind string
}

type transRec struct {
	seq  uint64
	at   time.Duration
	down bool // true: avail true->false; false: avail false->true
}

type c06 struct {
	s        *simrt.Sim
	back     *BfeBackend
	failNum  int
	succNum  int
	interval time.Duration
	timeout  time.Duration
	probes   []probeRec
	trans    []transRec
	lastAv   bool
	// reporter scripts
	scripts    [][]bool // true = failure
	gaps       [][]int  // ms sleep before each report
	multi      bool
	relSeq     uint64 // event seq at which Release returned (0 = none)
	relAt      time.Duration
	doRelease  bool
	relAfter   time.Duration
	maxCheck   int
	calls      [][]callRec
	checkerEnd time.Duration
}

type callRec struct {
	fail     bool
	inv, ret uint64
}

// policy is the scripted probe listener: every health-check dial gets its
// verdict from the tape.
//
//go:norace
func (h *c06) policy(d simnet.DialInfo) (simnet.Verdict, time.Duration) {
	s := h.s
	v := simnet.Accept
	delay := time.Duration(0)
	switch s.Draw(6, "probe.verdict") {
	case 0, 1, 2:
		v = simnet.Accept
	case 3:
		v = simnet.Refuse
	case 4:
		v = simnet.Timeout
	case 5:
		v = simnet.Slow
		delay = time.Duration(s.Draw(int(2*h.timeout/time.Millisecond)+1, "probe.slow_ms")) * time.Millisecond
	}
	ok := v == simnet.Accept || (v == simnet.Slow && delay < h.timeout)
	seq := s.Note("probe", fmt.Sprintf("%s verdict=%d ok=%v", d.Addr, v, ok))
	h.probes = append(h.probes, probeRec{simrt.Current().Name, seq, s.Now(), ok, fmt.Sprint(v)})
	return v, delay
}

// watch runs after every scheduler step with all tasks parked: records
// availability transitions and counts live checker tasks.
//
//go:norace
func (h *c06) watch() error {
	av := h.back.avail // in-package read at quiescence (no lock needed: nobody runs)
	if av != h.lastAv {
		h.trans = append(h.trans, transRec{h.s.SeqNoLock(), h.s.Now(), !av})
		h.lastAv = av
	}
	n := 0
	for _, t := range h.s.TasksNoLock() {
		if !t.Done() && strings.HasSuffix(t.Entry, "backend.check") && t.Arg == interface{}(h.back) {
			n++
		}
	}
	if n > h.maxCheck {
		h.maxCheck = n
	}
	// a checker that has just put the backend back is still a live goroutine for a
	// few instructions while a new failure may already start the next one: two live
	// tasks are legitimate for that instant, three never are. Whether two checkers
	// ever *probe* in overlapping periods is decided over the probe history below.
	if n > 2 {
		return errTwoCheckers // no fmt here: invariants run with sync events hidden from the race detector
	}
	return nil
}

//go:norace
func (h *c06) reporter(i int) {
	s := h.s
	for k, fail := range h.scripts[i] {
		if g := h.gaps[i][k]; g > 0 {
			simrt.Sleep(time.Duration(g) * time.Millisecond)
		}
		inv := s.Note("inv", fmt.Sprintf("report fail=%v", fail))
		if fail {
			h.back.OnFail("cl")
		} else {
			h.back.OnSuccess()
		}
		ret := s.Note("ret", "report")
		h.calls[i] = append(h.calls[i], callRec{fail, inv, ret})
	}
}

//go:norace
func (h *c06) reporter0() { h.reporter(0) }

//go:norace
func (h *c06) reporter1() { h.reporter(1) }

//go:norace
func (h *c06) reporter2() { h.reporter(2) }

//go:norace
func (h *c06) releaser() {
	simrt.Sleep(h.relAfter)
	h.back.Release()
	h.relSeq = h.s.Note("op", "release")
	h.relAt = h.s.Now()
	h.s.Fault("release")
}

// C06: a backend leaves rotation exactly when its consecutive failures reach
// FailNum; while out at most one checker runs; it returns only after SuccNum
// consecutive successful checks; a released backend stops being checked.
//
//go:norace
func runC06(s *simrt.Sim) {
	tp := s.Tape
	nofault := simrt.Mode() == "nofault"
	s.SetSticky([]int{0, 2, 4, 10}[tp.Draw(4, "sched.strategy")])
	h := &c06{s: s, lastAv: true}
	h.failNum = tp.Range(1, 4, "fail_num")
	h.succNum = tp.Range(1, 3, "succ_num")
	h.interval = time.Duration([]int{10, 100, 1000, 10000}[tp.Draw(4, "check_interval")]) * time.Millisecond
	h.timeout = time.Duration([]int{5, 50, 500}[tp.Draw(3, "check_timeout")]) * time.Millisecond
	schem, fn, sn := "tcp", h.failNum, h.succNum
	iv, to := int(h.interval/time.Millisecond), int(h.timeout/time.Millisecond)
	conf := &cluster_conf.BackendCheck{Schem: &schem, FailNum: &fn, SuccNum: &sn, CheckInterval: &iv, CheckTimeout: &to}
	SetCheckConfFetcher(func(cluster string) *cluster_conf.BackendCheck { return conf })
	net := simnet.New(s)
	net.Policy = h.policy
	name, addr, port, w := "b1", "10.3.0.1", 8080, 1
	h.back = NewBfeBackend()
	h.back.Init("sub", &cluster_table_conf.BackendConf{Name: &name, Addr: &addr, Port: &port, Weight: &w})
	s.Invariant(h.watch)

	nrep := 1
	if !nofault && tp.Chance(1, 3, "multi_reporter") {
		nrep = tp.Range(2, 3, "n_reporters")
		h.multi = true
	}
	h.scripts = make([][]bool, nrep)
	h.gaps = make([][]int, nrep)
	h.calls = make([][]callRec, nrep)
	for i := 0; i < nrep; i++ {
		n := tp.Range(1, 14, "n_reports")
		for k := 0; k < n; k++ {
			h.scripts[i] = append(h.scripts[i], tp.Chance(3, 4, "report.fail"))
			g := 0
			if tp.Chance(1, 3, "report.gap") {
				g = []int{1, 20, 300, 5000, 30000}[tp.Draw(5, "report.gap_ms")]
			}
			h.gaps[i] = append(h.gaps[i], g)
		}
	}
	h.doRelease = !nofault && tp.Chance(1, 3, "do_release")
	h.relAfter = time.Duration([]int{0, 3, 40, 700, 12000}[tp.Draw(5, "release_after")]) * time.Millisecond
	var tasks []*simrt.Task
	tasks = append(tasks, simrt.GoNamed("reporter", 0, h.reporter0))
	if nrep > 1 {
		tasks = append(tasks, simrt.GoNamed("reporter", 1, h.reporter1))
	}
	if nrep > 2 {
		tasks = append(tasks, simrt.GoNamed("reporter", 2, h.reporter2))
	}
	if h.doRelease {
		tasks = append(tasks, simrt.GoNamed("releaser", nil, h.releaser))
	}
	simrt.Join(tasks...)
	// let a running checker make progress for a while, then release so the run can end
	simrt.Sleep(time.Duration(tp.Range(0, 5, "tail_intervals")) * (h.interval + h.timeout))
	if h.relSeq == 0 {
		h.back.Release()
		h.relSeq = s.Note("op", "release(final)")
		h.relAt = s.Now()
	}
	// the checker must exit within one interval + timeout (+ one in-flight probe) of the
	// release, counted from now (a report after an early release may just have started one)
	deadline := s.Now() + 2*(h.interval+h.timeout) + time.Second
	simrt.WaitUntil(func() bool {
		live := false
		for _, t := range s.TasksNoLock() {
			if !t.Done() && strings.HasSuffix(t.Entry, "backend.check") {
				live = true
			}
		}
		return !live || s.Now() > deadline
	})
	if s.Failed() {
		return
	}
	for _, t := range s.TasksNoLock() {
		if !t.Done() && strings.HasSuffix(t.Entry, "backend.check") {
			s.FailK("C06.release", "checker-survives-release", "health checker still running %v after the backend was released and the last report returned (interval %v, timeout %v)", 2*(h.interval+h.timeout)+time.Second, h.interval, h.timeout)
			return
		}
	}
	// (d) at most one further probe is started after the release
	after := 0
	for _, p := range h.probes {
		if p.seq > h.relSeq {
			after++
		}
	}
	s.Checked(1)
	if after > 1 {
		s.FailK("C06.release", "probes-after-release", "%d health probes were started after the backend was released", after)
		return
	}
	// (b) at most one checker probes at a time: the probe sequences of two different
	// checker tasks never interleave
	lastOf := map[string]uint64{}
	for _, p := range h.probes {
		lastOf[p.task] = p.seq
	}
	for _, p := range h.probes {
		for tk, last := range lastOf {
			if tk != p.task && firstProbe(h.probes, tk) < p.seq && p.seq < last {
				s.FailK("C06.single_checker", "two-checkers-probing", "health checkers %s and %s probed the same backend in overlapping periods", tk, p.task)
				return
			}
		}
	}
	s.Checked(1)
	// (c) every return to rotation is preceded by SuccNum consecutive successful probes
	for _, tr := range h.trans {
		if tr.down {
			continue
		}
		var before []probeRec
		for _, p := range h.probes {
			if p.seq < tr.seq {
				before = append(before, p)
			}
		}
		s.Checked(1)
		if len(before) < h.succNum {
			s.FailK("C06.up", "up-without-enough-probes", "backend returned to rotation after %d probes, SuccNum=%d", len(before), h.succNum)
			return
		}
		for _, p := range before[len(before)-h.succNum:] {
			if !p.ok {
				s.FailK("C06.up", "up-after-failed-probe", "backend returned to rotation although one of the last %d probes failed (%+v)", h.succNum, before)
				return
			}
		}
		s.Probe("up_transition_checked")
	}
	// (a) down transitions vs consecutive failures
	h.checkDown()
	if h.maxCheck > 0 {
		s.Probe("checker_ran")
	}
	s.Sample = map[string]interface{}{"fail_num": h.failNum, "succ_num": h.succNum, "interval": h.interval.String(), "timeout": h.timeout.String(),
		"reporters": nrep, "reports": h.scripts, "probes": len(h.probes), "transitions": len(h.trans), "released_early": h.doRelease}
}

func firstProbe(ps []probeRec, task string) uint64 {
	for _, p := range ps {
		if p.task == task {
			return p.seq
		}
	}
	return 0
}

// checkDown relates availability transitions to the report history.
//
// Single reporter: walking its calls in order, keep the range [lo,hi] of the
// possible consecutive-failure count (an up-transition or a concurrent checker
// makes the count of in-flight calls ambiguous). A call that certainly reaches
// FailNum (lo >= FailNum) on an available backend must take it out during the
// call; a call that certainly does not (hi < FailNum) must not.
// Several reporters: only the relaxed interval clauses of DESIGN §6.
//
//go:norace
func (h *c06) checkDown() {
	s := h.s
	downDuring := func(inv, ret uint64) bool {
		for _, tr := range h.trans {
			if tr.down && tr.seq >= inv && tr.seq <= ret {
				return true
			}
		}
		return false
	}
	upDuringOrSince := func(from, to uint64) bool {
		for _, tr := range h.trans {
			if !tr.down && tr.seq >= from && tr.seq <= to {
				return true
			}
		}
		return false
	}
	availAt := func(seq uint64) bool { // availability just before event seq
		av := true
		for _, tr := range h.trans {
			if tr.seq < seq {
				av = !tr.down
			}
		}
		return av
	}
	if !h.multi {
		lo, hi := 0, 0
		prevRet := uint64(0)
		upBetween := func(from, to uint64) bool { // strictly inside (from, to)
			for _, tr := range h.trans {
				if !tr.down && tr.seq > from && tr.seq < to {
					return true
				}
			}
			return false
		}
		for _, c := range h.calls[0] {
			if upBetween(prevRet, c.inv) {
				lo, hi = 0, 0 // a recovery clears the failure count
			}
			if !c.fail {
				lo, hi = 0, 0
				prevRet = c.ret
				continue
			}
			lo++
			hi++
			was := availAt(c.inv)
			went := downDuring(c.inv, c.ret)
			if upDuringOrSince(c.inv, c.ret) {
				// recovery while this report was in flight: it may or may not have been counted
				lo, hi = 0, 1
			} else if was {
				s.Checked(1)
				if lo >= h.failNum && !went {
					s.FailK("C06.down", "not-down-at-threshold", "consecutive failures reached %d (FailNum %d) but the backend stayed in rotation", lo, h.failNum)
					return
				}
				if hi < h.failNum && went {
					s.FailK("C06.down", "down-below-threshold", "backend taken out after at most %d consecutive failures (FailNum %d)", hi, h.failNum)
					return
				}
			}
			prevRet = c.ret
		}
		return
	}
	// relaxed clauses for concurrent reporters
	type ev struct {
		fail     bool
		inv, ret uint64
	}
	var all []ev
	for _, cs := range h.calls {
		for _, c := range cs {
			all = append(all, ev{c.fail, c.inv, c.ret})
		}
	}
	for _, tr := range h.trans {
		if !tr.down {
			continue
		}
		// upper bound of the consecutive-failure count at the transition: a failure is
		// surely wiped only by a success (or a recovery) that began after it returned and
		// finished before the transition
		n := 0
		for _, e := range all {
			if !e.fail || e.inv > tr.seq {
				continue
			}
			wiped := false
			for _, x := range all {
				if !x.fail && x.inv > e.ret && x.ret < tr.seq {
					wiped = true
				}
			}
			for _, t2 := range h.trans {
				if !t2.down && t2.seq > e.ret && t2.seq < tr.seq {
					wiped = true
				}
			}
			if !wiped {
				n++
			}
		}
		s.Checked(1)
		if n < h.failNum {
			s.FailK("C06.down", "down-below-threshold", "backend taken out although only %d failures were reported since the last success/recovery (FailNum %d)", n, h.failNum)
			return
		}
	}
}
