//go:build verif
// +build verif

package bal_gslb

import "github.com/bfenetworks/bfe/bfe_balance/bal_slb"

// VerifSubs returns the sub-cluster balancers by name (harness-only accessor).
func (bal *BalanceGslb) VerifSubs() map[string]*bal_slb.BalanceRR {
	r := map[string]*bal_slb.BalanceRR{}
	for _, s := range bal.subClusters {
		r[s.Name] = s.backends
	}
	return r
}

// VerifRetryMax returns the retry budget currently in force (harness-only accessor).
func (bal *BalanceGslb) VerifRetryMax() int {
	bal.lock.Lock()
	defer bal.lock.Unlock()
	return bal.retryMax
}

// VerifSubFor returns the name of the sub-cluster a hash key is balanced to (harness-only accessor).
func (bal *BalanceGslb) VerifSubFor(value []byte) string {
	bal.lock.Lock()
	defer bal.lock.Unlock()
	sub, err := bal.subClusterBalance(value)
	if err != nil || sub == nil {
		return "<none>"
	}
	return sub.Name
}
