//go:build verif
// +build verif

package bal_slb

import (
	"fmt"

	"github.com/bfenetworks/bfe/bfe_balance/backend"
)

// VerifBackends returns the backends of the sub-cluster balancer in list order.
// Harness-only accessor (added through the build overlay, never part of /repo).
func (brr *BalanceRR) VerifBackends() []*backend.BfeBackend {
	r := make([]*backend.BfeBackend, 0, len(brr.backends))
	for _, b := range brr.backends {
		r = append(r, b.backend)
	}
	return r
}

// VerifDebug describes the balancer's internal credit state (debug probes only;
// no oracle reads it).
func (brr *BalanceRR) VerifDebug() string {
	s := ""
	for _, b := range brr.backends {
		s += fmt.Sprintf("[%s w=%d cur=%d ss=%v] ", b.backend.AddrInfo, b.weight, b.current, b.inSlowStart)
	}
	return s
}
