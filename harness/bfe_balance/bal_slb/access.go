//go:build verif
// +build verif

package bal_slb

import "github.com/bfenetworks/bfe/bfe_balance/backend"

// VerifBackends returns the backends of the sub-cluster balancer in list order.
// Harness-only accessor (added through the build overlay, never part of /repo).
func (brr *BalanceRR) VerifBackends() []*backend.BfeBackend {
	r := make([]*backend.BfeBackend, 0, len(brr.backends))
	for _, b := range brr.backends {
		r = append(r, b.backend)
	}
	return r
}
