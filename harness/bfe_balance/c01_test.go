//go:build verif
// +build verif

package bfe_balance

import (
	"fmt"
	"strings"
	"time"

	"verif/simrt"

	"github.com/bfenetworks/bfe/bfe_balance/bal_slb"
)

// C01: smooth WRR gives exact weight shares in every window of W selections of
// every stable epoch (fresh, after a reload, after an availability change),
// is periodic with period W, and is a function of the ordered weight list.
//
// The oracle knows nothing about credits or the x100 scaling: it only counts.
func runC01(s *simrt.Sim) {
	tp := s.Tape
	nofault := simrt.Mode() == "nofault"
	if !nofault {
		s.SetMapOrder(tp.Draw(4, "maporder"))
	}
	n := tp.Range(1, 6, "n_backends")
	sub := &mSub{Name: "sub.a", Weight: 1}
	for i := 0; i < n; i++ {
		w := tp.Range(1, 20, "weight")
		if i > 0 && tp.Chance(1, 10, "zero_weight") {
			w = 0
		}
		sub.Backends = append(sub.Backends, &mBackend{Name: fmt.Sprintf("b%d", i), Addr: fmt.Sprintf("10.0.0.%d", i+1), Port: 8000 + i, Weight: w, Up: true})
	}
	ss := 0
	if !nofault {
		ss = []int{0, 0, 0, 5, 30}[tp.Draw(5, "slow_start_s")]
	}
	conf, err := subConf(sub, nil)
	if err != nil {
		s.Fail("C01.load", "loader rejected generated sub-cluster: %v", err)
		return
	}
	brr := bal_slb.NewBalanceRR(sub.Name)
	brr.Init(conf)
	brr.SetSlowStart(ss)
	epochs := 1
	if !nofault {
		epochs = tp.Range(1, 6, "epochs")
	}
	var sample []string
	nextName := n
	for e := 0; e < epochs && !s.Failed(); e++ {
		kind := "fresh"
		if e > 0 {
			switch tp.Draw(3, "mutation") {
			case 0: // availability change (what health checking does)
				kind = "after_avail_change"
				b := sub.Backends[tp.Draw(len(sub.Backends), "flip_which")]
				var downs []*mBackend
				for _, x := range sub.Backends {
					if !x.Up {
						downs = append(downs, x)
					}
				}
				if len(downs) > 0 && tp.Chance(2, 3, "recover") {
					b = downs[tp.Draw(len(downs), "recover_which")] // a health-check style recovery
				}
				flip := func(b *mBackend) {
					b.Up = !b.Up
					for _, rb := range brr.VerifBackends() {
						if rb.AddrInfo == b.AddrInfo() {
							if b.Up && tp.Chance(3, 4, "restart_mark") {
								rb.SetRestart(true) // the health checker marks a recovered backend for slow start
								s.Probe("restart_mark")
							}
							rb.SetAvail(b.Up)
						}
					}
					s.Fault("avail_flip")
				}
				flip(b)
				// between two selections more than one backend may change: one
				// comes back while another goes away (same number available)
				if tp.Chance(1, 2, "swap") {
					var others []*mBackend
					for _, x := range sub.Backends {
						if x != b && x.Up == b.Up {
							others = append(others, x)
						}
					}
					if len(others) > 0 {
						flip(others[tp.Draw(len(others), "swap_which")])
						s.Probe("avail_swap")
					}
				}
			case 1: // reload with changed weights
				kind = "after_reload_weights"
				k := tp.Range(1, len(sub.Backends), "n_changed")
				for j := 0; j < k; j++ {
					b := sub.Backends[tp.Draw(len(sub.Backends), "chg_which")]
					b.Weight = tp.Range(1, 20, "new_weight")
				}
				c2, err := subConf(sub, nil)
				if err != nil {
					s.Fail("C01.load", "loader rejected reload: %v", err)
					return
				}
				brr.Update(c2)
				s.Fault("reload_weights")
			case 2: // reload adding / removing backends
				kind = "after_reload_members"
				if len(sub.Backends) > 1 && tp.Chance(1, 2, "remove") {
					i := tp.Draw(len(sub.Backends), "rm_which")
					sub.Backends = append(sub.Backends[:i:i], sub.Backends[i+1:]...)
				} else if len(sub.Backends) < 7 {
					sub.Backends = append(sub.Backends, &mBackend{Name: fmt.Sprintf("b%d", nextName), Addr: fmt.Sprintf("10.0.0.%d", nextName+1), Port: 8000 + nextName, Weight: tp.Range(1, 20, "weight"), Up: true})
					nextName++
				}
				c2, err := subConf(sub, nil)
				if err != nil {
					// e.g. no backend with weight>0 left: loader-rejected, not explored
					s.Probe("reload_rejected_by_loader")
					return
				}
				brr.Update(c2)
				s.Fault("reload_members")
			}
			if ss > 0 {
				// let any slow-start ramp finish: first call starts it, then wait it out
				brr.Balance(bal_slb.WrrSmooth, nil)
				// traffic during the ramp, at seeded instants
				left := time.Duration(ss+1) * time.Second
				for k := tp.Draw(6, "ramp_picks"); k > 0; k-- {
					d := time.Duration(tp.Range(1, 1000*ss, "ramp_gap_ms")) * time.Millisecond
					if d >= left {
						break
					}
					time.Sleep(d)
					left -= d
					brr.Balance(bal_slb.WrrSmooth, nil)
					s.Probe("pick_during_ramp")
				}
				// the ramp is over once SlowStartTime has elapsed: the very next
				// selection already belongs to the stable epoch
				time.Sleep(left)
				s.Probe("slow_start_ramp_waited")
			}
		}
		el := sub.eligible()
		if len(el) == 0 {
			_, err := brr.Balance(bal_slb.WrrSmooth, nil)
			s.Checked(1)
			if err == nil {
				s.FailK("C01.no_eligible", "no-eligible-returns-backend", "%s: no eligible backend but Balance succeeded", kind)
			}
			continue
		}
		W := 0
		want := map[string]int{}
		for _, b := range el {
			W += b.Weight
			want[b.AddrInfo()] = b.Weight
		}
		picks := 3 * W
		reloadAt := -1
		if !nofault {
			// stop anywhere in a round, so that the next change does not always
			// meet the neutral credits of a finished round
			picks += tp.Draw(W, "extra_picks")
			if tp.Chance(1, 2, "identical_reload") {
				reloadAt = tp.Draw(picks, "identical_reload_at")
			}
		}
		seq := make([]string, 0, picks)
		for i := 0; i < picks; i++ {
			if i == reloadAt {
				// a reload that changes nothing for this sub-cluster (another
				// cluster of the file changed): backends and weights stay as they
				// are, so the windows run on across it
				c2, err := subConf(sub, nil)
				if err != nil {
					s.Fail("C01.load", "loader rejected identical reload: %v", err)
					return
				}
				brr.Update(c2)
				s.Fault("reload_identical")
			}
			b, err := brr.Balance(bal_slb.WrrSmooth, nil)
			if err != nil {
				s.FailK("C01.error", kind+"/error-with-eligible", "%s: Balance failed with %d eligible backends: %v", kind, len(el), err)
				return
			}
			if _, ok := want[b.AddrInfo]; !ok {
				s.FailK("C01.ineligible", kind+"/ineligible-picked", "%s: picked ineligible %s", kind, b.AddrInfo)
				return
			}
			seq = append(seq, b.AddrInfo)
		}
		if e == 0 {
			sample = seq
			if len(sample) > 24 {
				sample = sample[:24]
			}
		}
		// every sliding window of W consecutive selections
		cnt := map[string]int{}
		for i := 0; i < len(seq); i++ {
			cnt[seq[i]]++
			if i >= W {
				cnt[seq[i-W]]--
			}
			if i >= W-1 {
				s.Checked(1)
				for _, eb := range el {
					a, w := eb.AddrInfo(), eb.Weight
					if cnt[a] != w {
						s.FailK("C01.window", kind+"/window-share", "%s epoch %d: window ending at pick %d (W=%d) has %d picks of %s, weight %d; weights=%v seq=%s",
							kind, e, i, W, cnt[a], a, w, want, strings.Join(seq[:i+1], " "))
						return
					}
				}
			}
		}
		for i := 0; i+W < len(seq); i++ {
			if seq[i] != seq[i+W] {
				s.FailK("C01.period", kind+"/period", "%s epoch %d: not periodic with W=%d at %d", kind, e, W, i)
				return
			}
		}
		s.Probe("epoch." + kind)
		// function of the ordered weight list: an independently built twin with the
		// same ordered weights (other names/addresses) emits the same index sequence
		if e == 0 {
			twin := &mSub{Name: "sub.twin", Weight: 1}
			for i, b := range sub.Backends {
				twin.Backends = append(twin.Backends, &mBackend{Name: fmt.Sprintf("t%d", i), Addr: fmt.Sprintf("10.9.%d.7", i), Port: 9000 - i, Weight: b.Weight, Up: true})
			}
			c3, err := subConf(twin, nil)
			if err == nil {
				t2 := bal_slb.NewBalanceRR(twin.Name)
				t2.Init(c3)
				idx := func(su *mSub, a string) int {
					for i, b := range su.Backends {
						if b.AddrInfo() == a {
							return i
						}
					}
					return -1
				}
				for i := 0; i < len(seq); i++ {
					b, err := t2.Balance(bal_slb.WrrSmooth, nil)
					s.Checked(1)
					if err != nil || idx(twin, b.AddrInfo) != idx(sub, seq[i]) {
						s.FailK("C01.deterministic", "fresh/twin-differs", "twin balancer with the same ordered weights diverges at pick %d", i)
						return
					}
				}
			}
		}
	}
	ws := []int{}
	for _, b := range sub.Backends {
		ws = append(ws, b.Weight)
	}
	s.Sample = map[string]interface{}{"final_weights": ws, "slow_start_s": ss, "epochs": epochs, "first_picks": sample}
}
