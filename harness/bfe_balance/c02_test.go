//go:build verif
// +build verif

package bfe_balance

import (
	"fmt"
	"net"
	"strings"

	"github.com/bfenetworks/bfe/bfe_balance/bal_slb"
	"github.com/bfenetworks/bfe/bfe_basic"
	"github.com/bfenetworks/bfe/bfe_http"
)

// reqForKey builds a request whose hash key under g's strategy is exactly the
// returned byte string (i-th candidate).
func reqForKey(g *gconf, i int) (*bfe_basic.Request, []byte) {
	hr := &bfe_http.Request{Method: "GET", Header: bfe_http.Header{}, RequestURI: fmt.Sprintf("/part/%d", i)}
	req := bfe_basic.NewRequest(hr, nil, &bfe_basic.RequestStat{}, nil, nil)
	ip := net.IPv4(172, byte(16+i>>16), byte(i>>8), byte(i))
	req.ClientAddr = &net.TCPAddr{IP: ip, Port: 999}
	val := fmt.Sprintf("id-%d", i)
	switch g.Strategy {
	case 1: // client ip only
		return req, []byte(ip)
	case 3: // request uri
		return req, []byte(hr.RequestURI)
	default: // client id only / preferred
		if strings.HasPrefix(g.Header, "Cookie:") {
			hr.Header.Set("Cookie", strings.TrimPrefix(g.Header, "Cookie:")+"="+val)
		} else {
			hr.Header.Set(g.Header, val)
		}
		return req, []byte(val)
	}
}

// partitionCheck: for every residue r of hash(key) mod W the target is a
// function of r alone and target t owns exactly w_t residues. Sub-cluster
// level always; sticky (instance) level when the scaled total is small.
func (h *hist) partitionCheck() {
	s := h.s
	c := h.t.clusters[h.tp.Draw(len(h.t.clusters), "part.cluster")]
	g := h.t.conf[c.Name]
	bal, err := h.allUp.table.Lookup(c.Name)
	if err != nil {
		return
	}
	// --- sub-cluster level
	W := 0
	npos := 0
	for _, su := range c.Subs {
		if su.Weight > 0 {
			W += su.Weight
			npos++
		}
	}
	if npos > 1 {
		owner := make([]string, W)
		seen := 0
		for i := 0; seen < W && i < 200*W; i++ {
			req, key := reqForKey(g, i)
			r := bal_slb.GetHash(key, uint(W))
			bal.Balance(req)
			got := req.Backend.SubclusterName
			s.Checked(1)
			if owner[r] == "" {
				owner[r] = got
				seen++
			} else if owner[r] != got {
				s.FailK("C02.partition", "subcluster-not-function-of-residue", "keys with the same residue %d (mod %d) went to %s and %s", r, W, owner[r], got)
				return
			}
		}
		if seen == W {
			cnt := map[string]int{}
			for _, o := range owner {
				cnt[o]++
			}
			for _, su := range c.Subs {
				w := su.Weight
				if w < 0 {
					w = 0
				}
				if cnt[su.Name] != w {
					s.FailK("C02.partition", "subcluster-share", "sub-cluster %s (weight %d of %d) owns %d residues; gslb=%v", su.Name, su.Weight, W, cnt[su.Name], subNames(c))
					return
				}
			}
			s.Probe("partition_subcluster_checked")
		}
	}
	// --- instance level (sticky): only sub-clusters that are the single positive-weight one keep this cheap
	if g.Sticky && npos == 1 {
		var su *mSub
		for _, x := range c.Subs {
			if x.Weight > 0 {
				su = x
			}
		}
		if su == nil || su.Name == "GSLB_BLACKHOLE" {
			return
		}
		WB := 0
		for _, b := range su.Backends {
			if b.Weight > 0 {
				WB += b.Weight * 100
			}
		}
		if WB == 0 || WB > 1500 {
			return
		}
		owner := make([]string, WB)
		seen := 0
		for i := 0; seen < WB && i < 60*WB; i++ {
			req, key := reqForKey(g, i)
			r := bal_slb.GetHash(key, uint(WB))
			b, err := bal.Balance(req)
			s.Checked(1)
			if err != nil {
				s.FailK("C02.partition", "sticky-error-all-up", "sticky selection failed on an all-up instance: %v", err)
				return
			}
			if owner[r] == "" {
				owner[r] = b.AddrInfo
				seen++
			} else if owner[r] != b.AddrInfo {
				s.FailK("C02.partition", "sticky-not-function-of-residue", "sticky keys with the same residue %d (mod %d) went to %s and %s", r, WB, owner[r], b.AddrInfo)
				return
			}
		}
		if seen == WB {
			cnt := map[string]int{}
			for _, o := range owner {
				cnt[o]++
			}
			for _, b := range su.Backends {
				w := b.Weight * 100
				if w < 0 {
					w = 0
				}
				if cnt[b.AddrInfo()] != w {
					s.FailK("C02.partition", "sticky-share", "backend %s (weight %d, scaled total %d) owns %d residues", b.AddrInfo(), b.Weight, WB, cnt[b.AddrInfo()])
					return
				}
			}
			s.Probe("partition_sticky_checked")
		}
	}
}
