//go:build verif
// +build verif

package bfe_balance

import (
	"fmt"
	"time"

	"verif/simrt"

	"github.com/bfenetworks/bfe/bfe_balance/backend"
	"github.com/bfenetworks/bfe/bfe_balance/bal_slb"
	"github.com/bfenetworks/bfe/bfe_basic"
)

// hist drives one sequential history (selections, availability flips,
// connection open/close, reloads, basic-conf changes, clock advances) against
// the real balancer table and evaluates the oracles of the property in focus.
type hist struct {
	s     *simrt.Sim
	tp    *simrt.Tape
	focus string
	t     *topo
	main  *node
	// twins rebuilt after each configuration change
	allUp    *node                // fresh build, every backend up: tells the designated sub-cluster of a key
	twin     *node                // fresh build from a permuted listing, same downs applied: C02
	rampTill map[string]time.Time // addrInfo -> end of slow-start ramp (model)
	nops     int
	fails    map[ident]int // C09: failure marks the harness made (SetAvail(true) clears them, as documented in setAvail)
	log      []string
}

func (h *hist) note(f string, a ...interface{}) {
	if len(h.log) < 60 {
		h.log = append(h.log, fmt.Sprintf(f, a...))
	}
	h.s.Note("op", fmt.Sprintf(f, a...))
}

func (h *hist) rebuildTwins() bool {
	var err error
	h.allUp, err = h.t.build(nil)
	if err != nil {
		h.s.FailK(h.focus+".load", "twin-load", "fresh build of current config failed: %v", err)
		return false
	}
	if h.focus == "C02" {
		perm := []int{h.tp.Draw(7, "perm"), h.tp.Draw(5, "perm"), h.tp.Draw(3, "perm")}
		h.twin, err = h.t.build(perm)
		if err != nil {
			h.s.FailK(h.focus+".load", "twin-load", "permuted build of current config failed: %v", err)
			return false
		}
		h.t.applyDowns(h.twin)
	}
	return true
}

func (h *hist) inRamp(b *mBackend) bool {
	t, ok := h.rampTill[b.AddrInfo()]
	return ok && time.Now().Before(t)
}

// selectOnce performs one Balance call on the main node and checks it.
func (h *hist) selectOnce() {
	s, tp := h.s, h.tp
	c := h.t.clusters[tp.Draw(len(h.t.clusters), "sel.cluster")]
	g := h.t.conf[c.Name]
	ki := tp.Draw(len(keyPool), "sel.key")
	retry := 0
	if tp.Chance(1, 3, "sel.retry") {
		retry = tp.Draw(g.RetryMax+g.CrossRetry+2, "sel.retry_n")
	}
	bal, err := h.main.table.Lookup(c.Name)
	if err != nil {
		s.FailK(h.focus+".lookup", "cluster-missing", "configured cluster %s not in balancer table: %v", c.Name, err)
		return
	}
	// designated sub-cluster: what a fresh, all-up instance chooses for this key
	dreq := mkReq(g, ki, 0)
	dbal, _ := h.allUp.table.Lookup(c.Name)
	dbal.Balance(dreq)
	des := c.sub(dreq.Backend.SubclusterName)
	if des == nil {
		s.FailK(h.focus+".designated", "designated-unknown", "fresh instance designates unknown sub-cluster %q", dreq.Backend.SubclusterName)
		return
	}
	req := mkReq(g, ki, retry)
	b, err := bal.Balance(req)
	got := c.sub(req.Backend.SubclusterName)
	h.note("select %s key=%d retry=%d -> sub=%s backend=%v err=%v (designated %s)", c.Name, ki, retry, req.Backend.SubclusterName, addrOf(b), err, des.Name)
	s.Checked(1)

	elig := func(su *mSub) []*mBackend {
		if su.Name == "GSLB_BLACKHOLE" {
			return nil
		}
		return su.eligible()
	}
	anyRamp := false
	for _, su := range c.Subs {
		for _, mb := range su.Backends {
			if h.inRamp(mb) {
				anyRamp = true
			}
		}
	}

	if h.focus == "C03" || h.focus == "C04" {
		// --- C03: eligibility of whatever is returned
		if err == nil {
			if b == nil {
				s.FailK("C03.nil", "nil-backend-no-error", "Balance returned (nil, nil)")
				return
			}
			if got == nil || got.Name == "GSLB_BLACKHOLE" {
				s.FailK("C03.blackhole", "forwarded-to-blackhole", "request assigned to %q was given backend %s", req.Backend.SubclusterName, b.AddrInfo)
				return
			}
			mb := got.find(b.AddrInfo)
			if mb == nil {
				s.FailK("C03.member", "backend-not-in-subcluster", "returned backend %s is not a configured member of %s", b.AddrInfo, got.Name)
				return
			}
			if !mb.Up {
				s.FailK("C03.unavailable", "unavailable-backend-returned", "returned backend %s is marked unavailable", b.AddrInfo)
				return
			}
			if mb.Weight <= 0 {
				s.FailK("C03.weight", "nonpositive-weight-backend-returned", "returned backend %s has configured weight %d", b.AddrInfo, mb.Weight)
				return
			}
			crossed := got != des
			if !crossed && got.Weight <= 0 {
				s.FailK("C03.subweight", "first-choice-to-nonpositive-subcluster", "first-choice traffic sent to sub-cluster %s with weight %d", got.Name, got.Weight)
				return
			}
			if crossed {
				s.Probe("cross_retry_success")
				if got.Weight < 0 {
					s.FailK("C03.subweight", "cross-to-negative-subcluster", "cross retry sent to sub-cluster %s with weight %d", got.Name, got.Weight)
					return
				}
				if retry <= g.RetryMax && len(elig(des)) > 0 && !anyRamp {
					s.FailK("C03.firstchoice", "left-designated-with-eligible", "designated %s has eligible backends and retry %d<=RetryMax %d, yet %s was used", des.Name, retry, g.RetryMax, got.Name)
					return
				}
			}
		}
		// --- C03: error exactly when no eligible target exists
		expectErr, expectOK := false, false
		switch {
		case retry > g.RetryMax+g.CrossRetry:
			expectErr = true
		case des.Name == "GSLB_BLACKHOLE":
			expectErr = true
			if err == nil || req.ErrCode != bfe_basic.ErrGslbBlackhole {
				s.FailK("C03.blackhole", "blackhole-not-rejected", "request designated to GSLB_BLACKHOLE got backend=%v err=%v errcode=%v", addrOf(b), err, req.ErrCode)
				return
			}
			s.Probe("blackhole_rejected")
		case retry <= g.RetryMax && len(elig(des)) > 0:
			expectOK = true
		case g.CrossRetry <= 0:
			expectErr = true
		default:
			nc, ne := 0, 0
			for _, su := range c.Subs {
				if su != des && su.Weight >= 0 && su.Name != "GSLB_BLACKHOLE" {
					nc++
					if len(elig(su)) > 0 {
						ne++
					}
				}
			}
			if ne == 0 {
				expectErr = true
			} else if ne == nc {
				expectOK = true
			}
		}
		if anyRamp {
			s.Probe("select_during_ramp")
		}
		if expectErr && err == nil {
			s.FailK("C03.error_iff", "success-without-eligible-target", "no eligible target for this request (retry=%d RetryMax=%d CrossRetry=%d designated=%s) but backend %s returned", retry, g.RetryMax, g.CrossRetry, des.Name, addrOf(b))
			return
		}
		if expectOK && err != nil {
			key := "error-with-eligible-target"
			if anyRamp {
				key = "error-with-eligible-target-during-slow-start"
			}
			s.FailK("C03.error_iff", key, "eligible target exists (designated %s eligible=%d retry=%d) but Balance failed: %v / %v", des.Name, len(elig(des)), retry, err, req.ErrMsg)
			return
		}
		if err != nil {
			s.Probe("balance_error")
		}
	}

	if h.focus == "C04" && err == nil && g.Mode == "WLC" && !g.Sticky && g.SlowStart == 0 && got != nil {
		mb := got.find(b.AddrInfo)
		for _, o := range got.eligible() {
			s.Checked(1)
			// conn_b/w_b <= conn_o/w_o  <=>  conn_b*w_o <= conn_o*w_b
			if mb.Conns*o.Weight > o.Conns*mb.Weight {
				s.FailK("C04.minimal", "not-minimal-conns-per-weight", "WLC picked %s (conns=%d weight=%d) although %s has conns=%d weight=%d", mb.AddrInfo(), mb.Conns, mb.Weight, o.AddrInfo(), o.Conns, o.Weight)
				return
			}
		}
		s.Probe("wlc_checked")
	}

	if h.focus == "C02" && retry <= g.RetryMax && des.Name != "GSLB_BLACKHOLE" && len(elig(des)) > 0 && !anyRamp && (err != nil || got != des) {
		// the instance with history must send the key where a fresh instance of the same
		// configuration sends it (it has eligible backends there and retries are not exhausted)
		s.FailK("C02.subcluster", "subcluster-depends-on-history-or-order", "key %d: instance with history chose %q (err=%v), a fresh instance of the same configuration chooses %s", ki, req.Backend.SubclusterName, err, des.Name)
		return
	}
	if h.focus == "C02" && err == nil && retry <= g.RetryMax && got == des && len(elig(des)) > 0 && !anyRamp {
		// same request against the permuted-listing twin in the same eligibility state
		treq := mkReq(g, ki, retry)
		tbal, _ := h.twin.table.Lookup(c.Name)
		tb, terr := tbal.Balance(treq)
		s.Checked(1)
		if terr != nil || treq.Backend.SubclusterName != req.Backend.SubclusterName {
			s.FailK("C02.subcluster", "subcluster-depends-on-history-or-order", "key %d: instance with history chose %s, fresh permuted instance chose %s (err=%v)", ki, req.Backend.SubclusterName, treq.Backend.SubclusterName, terr)
			return
		}
		if g.Sticky {
			s.Probe("sticky_compared")
			if tb.AddrInfo != b.AddrInfo {
				s.FailK("C02.sticky", "sticky-depends-on-history-or-order", "sticky key %d: instance with history chose %s, fresh permuted instance chose %s", ki, b.AddrInfo, tb.AddrInfo)
				return
			}
		}
	}
}

// selectWLCDirect calls BalanceRR.Balance with WlcSimple / WlcSmooth on one
// sub-cluster (WlcSimple is not reachable through BalanceGslb) and checks
// eligibility and minimality of connections/weight by exact cross-multiplication.
func (h *hist) selectWLCDirect() {
	s := h.s
	c, su, _ := h.pickBackend("wlc")
	g := h.t.conf[c.Name]
	if g.SlowStart > 0 {
		return
	}
	bal, err := h.main.table.Lookup(c.Name)
	if err != nil {
		return
	}
	rr := bal.VerifSubs()[su.Name]
	if rr == nil {
		return
	}
	algo := []int{bal_slb.WlcSimple, bal_slb.WlcSmooth}[h.tp.Draw(2, "wlc.algo")]
	b, err := rr.Balance(algo, nil)
	el := su.eligible()
	s.Checked(1)
	h.note("wlc direct algo=%d on %s -> %v err=%v", algo, su.Name, addrOf(b), err)
	if len(el) == 0 {
		if err == nil {
			s.FailK("C04.eligible", "wlc-success-without-eligible", "WLC (algo %d) returned %s although no backend of %s is eligible", algo, addrOf(b), su.Name)
		}
		return
	}
	if err != nil {
		s.FailK("C04.eligible", "wlc-error-with-eligible", "WLC (algo %d) failed although %d backends of %s are eligible: %v", algo, len(el), su.Name, err)
		return
	}
	mb := su.find(b.AddrInfo)
	if mb == nil || !mb.eligible() {
		s.FailK("C04.eligible", "wlc-ineligible-picked", "WLC (algo %d) picked %s which is down or has weight <= 0", algo, b.AddrInfo)
		return
	}
	for _, o := range el {
		if mb.Conns*o.Weight > o.Conns*mb.Weight {
			s.FailK("C04.minimal", "not-minimal-conns-per-weight", "WLC (algo %d) picked %s (conns=%d weight=%d) although %s has conns=%d weight=%d", algo, mb.AddrInfo(), mb.Conns, mb.Weight, o.AddrInfo(), o.Conns, o.Weight)
			return
		}
	}
	s.Probe("wlc_direct_checked")
}

func addrOf(b *backend.BfeBackend) string {
	if b == nil {
		return "<nil>"
	}
	return b.AddrInfo
}

func (h *hist) pickBackend(label string) (*mCluster, *mSub, *mBackend) {
	c := h.t.clusters[h.tp.Draw(len(h.t.clusters), label+".cluster")]
	var subs []*mSub
	for _, su := range c.Subs {
		if len(su.Backends) > 0 {
			subs = append(subs, su)
		}
	}
	su := subs[h.tp.Draw(len(subs), label+".sub")]
	return c, su, su.Backends[h.tp.Draw(len(su.Backends), label+".backend")]
}

func (h *hist) flip() {
	c, su, b := h.pickBackend("flip")
	b.Up = !b.Up
	if rb := h.main.realBackend(c.Name, su.Name, b.AddrInfo()); rb != nil {
		if b.Up && h.tp.Chance(1, 2, "flip.restart") {
			rb.SetRestart(true) // what the health checker does when it brings a backend back
			h.s.Probe("restart_mark")
		}
		rb.SetAvail(b.Up)
		if b.Up && h.fails != nil {
			delete(h.fails, ident{c.Name, su.Name, b.AddrInfo()})
		}
	}
	if h.twin != nil {
		if rb := h.twin.realBackend(c.Name, su.Name, b.AddrInfo()); rb != nil {
			rb.SetAvail(b.Up)
		}
	}
	h.s.Fault("avail_flip")
	h.note("flip %s/%s/%s up=%v", c.Name, su.Name, b.AddrInfo(), b.Up)
}

func (h *hist) conn() {
	c, su, b := h.pickBackend("conn")
	rb := h.main.realBackend(c.Name, su.Name, b.AddrInfo())
	if rb == nil {
		return
	}
	if b.Conns > 0 && h.tp.Chance(1, 3, "conn.close") {
		b.Conns--
		rb.DecConnNum()
		h.note("conn close %s -> %d", b.AddrInfo(), b.Conns)
	} else {
		k := h.tp.Range(1, 4, "conn.n")
		for i := 0; i < k; i++ {
			b.Conns++
			rb.IncConnNum()
		}
		h.note("conn open x%d %s -> %d", k, b.AddrInfo(), b.Conns)
	}
}

// mutate changes the topology for a reload. Returns a description.
func (h *hist) mutate(o genOpts) string {
	tp := h.tp
	c := h.t.clusters[tp.Draw(len(h.t.clusters), "mut.cluster")]
	var normal []*mSub
	for _, su := range c.Subs {
		if su.Name != "GSLB_BLACKHOLE" {
			normal = append(normal, su)
		}
	}
	su := normal[tp.Draw(len(normal), "mut.sub")]
	switch tp.Draw(6, "mut.kind") {
	case 0: // change a backend weight
		b := su.Backends[tp.Draw(len(su.Backends), "mut.b")]
		b.Weight = tp.Range(1, o.maxWeight, "mut.weight")
		if o.zeroWeights && tp.Chance(1, 4, "mut.zero") {
			// weight 0 = administratively disabled; the loader wants one positive weight per sub-cluster
			for _, x := range su.Backends {
				if x != b && x.Weight > 0 {
					b.Weight = 0
					break
				}
			}
		}
		return fmt.Sprintf("weight %s=%d", b.AddrInfo(), b.Weight)
	case 1: // add a backend
		if len(su.Backends) < o.maxBackends+2 {
			b := genBackend(tp, o, tp.Draw(10, "mut.addr_octet"), len(c.Subs), len(su.Backends)) // addresses sorting before/after the survivors
			su.Backends = append(su.Backends, b)
			if g := h.t.conf[c.Name]; g.SlowStart > 0 {
				h.rampTill[b.AddrInfo()] = time.Now().Add(time.Duration(g.SlowStart+1) * time.Second).Add(365 * 24 * time.Hour) // ramp starts at first selection; refined in selectOnce? keep conservative
			}
			return "add backend " + b.AddrInfo()
		}
	case 2: // remove a backend (keep one with positive weight)
		if len(su.Backends) > 1 {
			i := tp.Draw(len(su.Backends), "mut.rm")
			rest := append(append([]*mBackend(nil), su.Backends[:i]...), su.Backends[i+1:]...)
			pos := false
			for _, b := range rest {
				if b.Weight > 0 {
					pos = true
				}
			}
			if pos {
				d := su.Backends[i].AddrInfo()
				su.Backends = rest
				return "remove backend " + d
			}
		}
	case 3: // change gslb weights
		for _, x := range c.Subs {
			if tp.Chance(1, 2, "mut.gw") {
				if x.Name == "GSLB_BLACKHOLE" {
					x.Weight = tp.Draw(4, "mut.bhw")
				} else {
					x.Weight = tp.Range(0, 10, "mut.subw")
				}
			}
		}
		tot := 0
		for _, x := range c.Subs {
			if x.Weight > 0 {
				tot += x.Weight
			}
		}
		if tot == 0 {
			normal[0].Weight = 1
		}
		return fmt.Sprintf("gslb weights %v", subNames(c))
	case 4: // add a sub-cluster
		if len(normal) < o.maxSubs+1 {
			// names that sort before, between and after the existing ones
			prefix := []string{"subN", "aa", "zz", "Sub"}[tp.Draw(4, "mut.nsname")]
			if c.sub("GSLB_BLACKHOLE") == nil && tp.Chance(1, 4, "mut.addbh") {
				c.Subs = append(c.Subs, &mSub{Name: "GSLB_BLACKHOLE", Weight: tp.Draw(3, "mut.bhw")})
				return "add blackhole"
			}
			name := fmt.Sprintf("%s%d.%s", prefix, h.t.ver, c.Name)
			for k := 0; c.sub(name) != nil; k++ {
				name = fmt.Sprintf("%s%d-%d.%s", prefix, h.t.ver, k, c.Name)
			}
			ns := &mSub{Name: name, Weight: tp.Range(0, 10, "mut.nsw")}
			nb := tp.Range(1, 3, "mut.nsb")
			for i := 0; i < nb; i++ {
				b := genBackend(tp, o, 8, len(c.Subs), i)
				if i == 0 && b.Weight == 0 {
					b.Weight = 1
				}
				ns.Backends = append(ns.Backends, b)
			}
			c.Subs = append(c.Subs, ns)
			return "add sub-cluster " + ns.Name
		}
	case 5: // remove a sub-cluster, possibly the blackhole (keep positive total)
		if len(c.Subs) > 1 {
			victim := c.Subs[tp.Draw(len(c.Subs), "mut.rmsub")]
			tot := 0
			for _, x := range c.Subs {
				if x != victim && x.Weight > 0 {
					tot += x.Weight
				}
			}
			nleft := 0
			for _, x := range c.Subs {
				if x != victim && x.Name != "GSLB_BLACKHOLE" {
					nleft++
				}
			}
			if tot > 0 && nleft > 0 {
				var rest []*mSub
				for _, x := range c.Subs {
					if x != victim {
						rest = append(rest, x)
					}
				}
				c.Subs = rest
				return "remove sub-cluster " + victim.Name
			}
		}
	}
	return "no-op reload"
}

func runHist(focus string, o genOpts) func(s *simrt.Sim) {
	return func(s *simrt.Sim) {
		tp := s.Tape
		nofault := simrt.Mode() == "nofault"
		if nofault {
			o.slowStart = false
		} else {
			s.SetMapOrder(tp.Draw(4, "maporder"))
		}
		h := &hist{s: s, tp: tp, focus: focus, rampTill: map[string]time.Time{}}
		h.t = genTopo(tp, o)
		var err error
		h.main, err = h.t.build(nil)
		if err != nil {
			s.FailK(focus+".load", "generated-config-rejected", "loader rejected a generated configuration: %v", err)
			return
		}
		if !h.rebuildTwins() {
			return
		}
		initial := describe(h.t)
		nops := tp.Range(4, 40, "n_ops")
		for i := 0; i < nops && !s.Failed(); i++ {
			k := tp.Draw(12, "op")
			if focus == "C04" && k < 7 {
				// least-connection mode is about connection counts: many open/close operations,
				// and direct BalanceRR calls for both WLC variants
				switch {
				case k < 3:
					k = 9
				case k < 5:
					h.selectWLCDirect()
					continue
				}
			}
			if nofault && k >= 7 && k != 9 {
				k = 0
			}
			switch {
			case k < 7:
				h.selectOnce()
			case k == 7:
				h.flip()
			case k == 8:
				h.t.ver++
				d := h.mutate(o)
				for k := tp.Draw(3, "reload.compound"); k > 0; k-- {
					d += " + " + h.mutate(o) // one reload may carry several changes (e.g. a rolling replacement)
				}
				if err := h.t.reload(h.main); err != nil {
					s.FailK(focus+".reload", "reload-of-valid-config-failed", "reload (%s) failed: %v", d, err)
					return
				}
				s.Fault("reload")
				h.note("reload v%d: %s", h.t.ver, d)
				if !h.rebuildTwins() {
					return
				}
			case k == 9:
				h.conn()
			case k == 10:
				d := time.Duration(tp.Range(1, 40, "clock.s")) * time.Second
				time.Sleep(d)
				s.Fault("clock_advance")
				h.note("advance clock %v", d)
			case k == 11:
				c := h.t.clusters[tp.Draw(len(h.t.clusters), "basic.cluster")]
				g := h.t.conf[c.Name]
				g.RetryMax = tp.Draw(4, "basic.retry_max")
				g.CrossRetry = tp.Draw(3, "basic.cross")
				g.Strategy = tp.Draw(4, "basic.strategy")
				h.t.ver++
				if err := h.t.applyBasic(h.main); err != nil {
					s.FailK(focus+".reload", "basic-conf-rejected", "cluster_conf reload failed: %v", err)
					return
				}
				s.Fault("basic_conf_reload")
				h.note("set basic %s retry_max=%d cross=%d strategy=%d", c.Name, g.RetryMax, g.CrossRetry, g.Strategy)
				if !h.rebuildTwins() {
					return
				}
			}
		}
		if focus == "C02" && !s.Failed() {
			h.partitionCheck()
		}
		s.Sample = map[string]interface{}{"initial": initial, "ops": h.log}
	}
}
