//go:build verif
// +build verif

package bfe_balance

import (
	"fmt"
	"sync/atomic"
	"time"

	"verif/simrt"

	"github.com/bfenetworks/bfe/bfe_balance/backend"
	"github.com/bfenetworks/bfe/bfe_balance/bal_slb"
)

// C05: every Balance call returns (backend or error) without panic, deadlock or
// livelock under every interleaving of concurrent selections, availability
// flips, slow-start updates and reloads, for every algorithm; no data race
// (the same runs are repeated under -race with the scheduler's own
// synchronisation hidden from the detector).
//
// Tasks: 2-4 selectors through BalTable.Lookup -> BalanceGslb.Balance, one
// "algo" task calling BalanceRR.Balance with all five algorithms directly, a
// flapper (SetAvail), a reloader (real file loaders + BalTableReload +
// SetGslbBasic/SetSlowStart, as gslbDataConfReload does), a basic-conf setter.
//
//go:norace
func runC05(s *simrt.Sim) {
	tp := s.Tape
	nofault := simrt.Mode() == "nofault"
	if !nofault {
		s.SetMapOrder(tp.Draw(4, "maporder"))
	}
	s.SetSticky([]int{0, 2, 4, 10, 30}[tp.Draw(5, "sched.strategy")])
	o := genOpts{maxClusters: 2, maxSubs: 3, maxBackends: 4, maxWeight: 6, blackhole: true, zeroWeights: true, wlc: 1, sticky: 1, slowStart: !nofault}
	t := genTopo(tp, o)
	n, err := t.build(nil)
	if err != nil {
		s.FailK("C05.load", "generated-config-rejected", "loader rejected generated config: %v", err)
		return
	}
	initial := describe(t)
	// backends known to the flapper: the initial ones (snapshot before concurrency)
	var known []*backend.BfeBackend
	var rrs []*bal_slb.BalanceRR
	totalBackends := 0
	for _, c := range t.clusters {
		for _, su := range c.Subs {
			known = append(known, n.real(c.Name, su.Name)...)
			totalBackends += len(su.Backends)
			if bal, err := n.table.Lookup(c.Name); err == nil {
				if rr := bal.VerifSubs()[su.Name]; rr != nil && rr.Len() > 0 {
					rrs = append(rrs, rr)
				}
			}
		}
	}
	var mutatorsDone int32 // set by root (atomic); read by selectors
	nsel := tp.Range(2, 4, "n_selectors")
	callsPer := tp.Range(2, 8, "calls_per_selector")
	var tasks []*simrt.Task
	var mutators []*simrt.Task
	calls := make([]int, 8) // one slot per selector task, summed by root after Join
	// per-call step bound once mutators have stopped: a call takes a handful of
	// lock operations plus a constant number per backend of its cluster
	bound := 60 + 16*(totalBackends+6)
	for i := 0; i < nsel; i++ {
		i := i
		tasks = append(tasks, simrt.GoNamed("selector", i, func() {
			me := simrt.Current()
			for k := 0; k < callsPer; k++ {
				c := t.clusters[(i+k)%len(t.clusters)]
				g := t.conf[c.Name]
				quiet := atomic.LoadInt32(&mutatorsDone) == 1
				before := me.Steps
				bal, err := n.table.Lookup(c.Name)
				if err != nil {
					continue // cluster may be gone after a reload
				}
				req := mkReq(g, i*7+k, k%3)
				b, err := bal.Balance(req)
				calls[i]++
				s.Checked(1)
				if err == nil && b == nil {
					s.FailK("C05.total", "nil-nil", "Balance returned (nil, nil)")
				}
				if quiet && me.Steps-before > bound {
					s.FailK("C05.terminate", "call-exceeds-step-bound", "a Balance call issued after all mutators stopped took %d sim ops (bound %d)", me.Steps-before, bound)
				}
			}
		}))
	}
	if len(rrs) > 0 {
		tasks = append(tasks, simrt.GoNamed("algos", nil, func() {
			me := simrt.Current()
			for k := 0; k < 3*(callsPer+3); k++ {
				rr := rrs[(k/5)%len(rrs)]
				algo := k % 5
				quiet := atomic.LoadInt32(&mutatorsDone) == 1
				before := me.Steps
				b, err := rr.Balance(algo, []byte(keyPool[k%len(keyPool)]))
				s.Checked(1)
				if err == nil && b == nil {
					s.FailK("C05.total", "nil-nil", "BalanceRR.Balance(%d) returned (nil, nil)", algo)
				}
				if quiet && me.Steps-before > bound {
					s.FailK("C05.terminate", "call-exceeds-step-bound", "BalanceRR.Balance(%d) after mutators stopped took %d sim ops (bound %d)", algo, me.Steps-before, bound)
				}
				s.Probe(fmt.Sprintf("algo_%d", algo))
			}
		}))
	}
	if !nofault {
		nflip := tp.Range(0, 14, "n_flips")
		flips := make([][2]int, nflip)
		for i := range flips {
			flips[i] = [2]int{tp.Draw(len(known)+1, "flip.which"), tp.Draw(2, "flip.to")}
		}
		m := simrt.GoNamed("flapper", nil, func() {
			for _, f := range flips {
				if f[0] < len(known) {
					known[f[0]].SetAvail(f[1] == 1)
					s.Fault("avail_flip")
				}
			}
		})
		mutators = append(mutators, m)
		// connection counts change under the balancer's feet (other requests starting and finishing)
		nconn := tp.Range(0, 10, "n_conn_ops")
		cops := make([][2]int, nconn)
		for i := range cops {
			cops[i] = [2]int{tp.Draw(len(known)+1, "conn.which"), tp.Draw(2, "conn.dir")}
		}
		m = simrt.GoNamed("conns", nil, func() {
			open := map[int]int{}
			for _, c := range cops {
				if c[0] >= len(known) {
					continue
				}
				if c[1] == 1 || open[c[0]] == 0 {
					known[c[0]].IncConnNum()
					open[c[0]]++
				} else {
					known[c[0]].DecConnNum()
					open[c[0]]--
				}
				s.Fault("conn_change")
			}
		})
		mutators = append(mutators, m)
		nrel := tp.Range(0, 3, "n_reloads")
		m = simrt.GoNamed("reloader", nil, func() {
			h := &hist{s: s, tp: tp, focus: "C05", t: t, main: n, rampTill: map[string]time.Time{}}
			for i := 0; i < nrel; i++ {
				t.ver++
				d := h.mutate(o)
				for k := tp.Draw(3, "reload.compound"); k > 0; k-- {
					d += " + " + h.mutate(o) // one reload may carry several changes
				}
				if err := t.reload(n); err != nil {
					s.FailK("C05.reload", "reload-of-valid-config-failed", "reload (%s) failed: %v", d, err)
					return
				}
				s.Fault("reload")
				s.Note("op", "reload: "+d)
			}
		})
		mutators = append(mutators, m)
		nset := tp.Range(0, 3, "n_setbasic")
		sets := make([][3]int, nset)
		for i := range sets {
			sets[i] = [3]int{tp.Draw(4, "set.retry"), tp.Draw(3, "set.cross"), tp.Draw(4, "set.ss")}
		}
		m = simrt.GoNamed("setter", nil, func() {
			for _, st := range sets {
				// direct SetSlowStart / SetGslbBasic-like updates as serverDataConfReload does
				for _, rr := range rrs {
					rr.SetSlowStart([]int{0, 0, 5, 30}[st[2]])
				}
				s.Fault("set_slow_start")
				if st[2] > 1 {
					time.Sleep(time.Duration(st[0]+1) * time.Second)
					s.Fault("clock_advance")
				}
			}
		})
		mutators = append(mutators, m)
	}
	simrt.Join(mutators...)
	atomic.StoreInt32(&mutatorsDone, 1)
	simrt.Join(tasks...)
	ncalls := 0
	for _, c := range calls {
		ncalls += c
	}
	s.Sample = map[string]interface{}{"initial": initial, "selectors": nsel, "calls_per_selector": callsPer, "calls": ncalls}
}
