//go:build verif
// +build verif

package bfe_balance

import (
	"fmt"
	"sort"

	"verif/simrt"

	"github.com/bfenetworks/bfe/bfe_balance/backend"
	"github.com/bfenetworks/bfe/bfe_balance/bal_slb"
)

// C09: after any sequence of gslb / cluster-table reloads, backends whose name
// and address persist keep availability and counters, removed backends /
// sub-clusters / clusters are released exactly once (a second release is a
// close-of-closed-channel panic) and never selected again, new ones become
// selectable.

type ident struct{ cluster, sub, addr string }

// harness loops never depend on Go's map order (replay must be exact)
func sortedIdents(m map[ident][]*backend.BfeBackend) []ident {
	var ks []ident
	for k := range m {
		ks = append(ks, k)
	}
	sort.Slice(ks, func(i, j int) bool {
		return ks[i].cluster+"/"+ks[i].sub+"/"+ks[i].addr < ks[j].cluster+"/"+ks[j].sub+"/"+ks[j].addr
	})
	return ks
}

func sortedIdentsM(m map[ident]*mBackend) []ident {
	var ks []ident
	for k := range m {
		ks = append(ks, k)
	}
	sort.Slice(ks, func(i, j int) bool {
		return ks[i].cluster+"/"+ks[i].sub+"/"+ks[i].addr < ks[j].cluster+"/"+ks[j].sub+"/"+ks[j].addr
	})
	return ks
}

func closed(b *backend.BfeBackend) bool {
	select {
	case <-b.CloseChan():
		return true
	default:
		return false
	}
}

func (h *hist) snapshot() map[ident][]*backend.BfeBackend {
	m := map[ident][]*backend.BfeBackend{}
	for _, c := range h.t.clusters {
		for _, su := range c.Subs {
			for _, rb := range h.main.real(c.Name, su.Name) {
				k := ident{c.Name, su.Name, rb.AddrInfo}
				m[k] = append(m[k], rb)
			}
		}
	}
	return m
}

// mutate09 is mutate plus cluster add/remove, rename (same address, new name)
// and duplicate addresses.
func (h *hist) mutate09(o genOpts) string {
	tp := h.tp
	switch tp.Draw(10, "mut09.kind") {
	case 0: // remove a cluster (keep at least one)
		if len(h.t.clusters) > 1 {
			i := tp.Draw(len(h.t.clusters), "mut09.rmcl")
			d := h.t.clusters[i].Name
			h.t.clusters = append(append([]*mCluster(nil), h.t.clusters[:i]...), h.t.clusters[i+1:]...)
			return "remove cluster " + d
		}
	case 1: // add a cluster, possibly reusing the name of one removed earlier
		if len(h.t.clusters) < o.maxClusters+1 {
			name := fmt.Sprintf("cl%d", tp.Draw(o.maxClusters+1, "mut09.clname"))
			if h.t.cluster(name) == nil {
				c := &mCluster{Name: name}
				s := &mSub{Name: "subA." + name, Weight: tp.Range(1, 10, "mut09.sw")}
				nb := tp.Range(1, 3, "mut09.nb")
				for i := 0; i < nb; i++ {
					b := genBackend(tp, o, 7, 0, i)
					if b.Weight == 0 {
						b.Weight = 1
					}
					s.Backends = append(s.Backends, b)
				}
				c.Subs = []*mSub{s}
				h.t.clusters = append(h.t.clusters, c)
				if h.t.conf[name] == nil {
					h.t.conf[name] = &gconf{RetryMax: 1, CrossRetry: 1, Strategy: 1, Header: "X-Uid", Mode: "WRR"}
				}
				return "add cluster " + name
			}
		}
	case 2: // rename: same address, new name
		c := h.t.clusters[tp.Draw(len(h.t.clusters), "mut09.cluster")]
		for _, su := range c.Subs {
			if len(su.Backends) > 0 {
				b := su.Backends[tp.Draw(len(su.Backends), "mut09.ren")]
				b.Name = b.Name + "r"
				h.s.Probe("rename")
				return "rename " + b.AddrInfo() + " -> " + b.Name
			}
		}
	case 3: // duplicate address inside a sub-cluster (new name, same addr:port)
		c := h.t.clusters[tp.Draw(len(h.t.clusters), "mut09.cluster")]
		for _, su := range c.Subs {
			if len(su.Backends) > 0 && len(su.Backends) < 7 {
				b := su.Backends[tp.Draw(len(su.Backends), "mut09.dup")]
				su.Backends = append(su.Backends, &mBackend{Name: b.Name + "dup", Addr: b.Addr, Port: b.Port, Weight: b.Weight, Up: b.Up, Conns: b.Conns})
				h.s.Probe("duplicate_address")
				return "duplicate " + b.AddrInfo()
			}
		}
	}
	return h.mutate(o)
}

func hasDup(su *mSub) bool {
	seen := map[string]bool{}
	for _, b := range su.Backends {
		if seen[b.AddrInfo()] {
			return true
		}
		seen[b.AddrInfo()] = true
	}
	return false
}

func runC09(s *simrt.Sim) {
	tp := s.Tape
	nofault := simrt.Mode() == "nofault"
	if !nofault {
		s.SetMapOrder(tp.Draw(4, "maporder"))
	}
	o := genOpts{maxClusters: 3, maxSubs: 3, maxBackends: 4, maxWeight: 8, blackhole: true, zeroWeights: false, wlc: 1, sticky: 1}
	h := &hist{s: s, tp: tp, focus: "C09"}
	h.t = genTopo(tp, o)
	for _, g := range h.t.conf {
		g.SlowStart = 0
	}
	var err error
	h.main, err = h.t.build(nil)
	if err != nil {
		s.FailK("C09.load", "generated-config-rejected", "loader rejected generated config: %v", err)
		return
	}
	h.allUp = h.main // not used for designation here
	initial := describe(h.t)
	s.Sample = map[string]interface{}{"initial": initial}
	fails := map[ident]int{}
	h.fails = fails
	nreload := tp.Range(1, 10, "n_reloads")
	if nofault {
		nreload = tp.Range(1, 3, "n_reloads")
	}
	released := map[*backend.BfeBackend]bool{}
	// sub-clusters that ever listed one address twice: the configuration itself is
	// ambiguous there (which entry owns the state?), so only the release / zombie /
	// no-panic clauses are evaluated for them, not state preservation
	dupSubs := map[string]bool{}
	for r := 0; r < nreload && !s.Failed(); r++ {
		// some activity between reloads: flips, connections, failure marks, selections
		nact := tp.Range(0, 6, "n_activity")
		for a := 0; a < nact; a++ {
			switch tp.Draw(4, "activity") {
			case 0:
				h.flip()
			case 1:
				h.conn()
			case 2:
				c, su, b := h.pickBackend("fail")
				if rb := h.main.realBackend(c.Name, su.Name, b.AddrInfo()); rb != nil && !hasDup(su) {
					rb.AddFailNum()
					fails[ident{c.Name, su.Name, b.AddrInfo()}]++
					h.note("failmark %s", b.AddrInfo())
				}
			case 3:
				h.selectMember()
			}
		}
		before := h.snapshot()
		beforeModel := map[ident]*mBackend{}
		for _, c := range h.t.clusters {
			for _, su := range c.Subs {
				if hasDup(su) {
					dupSubs[c.Name+"/"+su.Name] = true
				}
				for _, b := range su.Backends {
					cp := *b
					k := ident{c.Name, su.Name, b.AddrInfo()}
					if _, ok := beforeModel[k]; !ok {
						beforeModel[k] = &cp
					}
				}
			}
		}
		h.t.ver++
		d := h.mutate09(o)
		if err := h.t.reload(h.main); err != nil {
			s.FailK("C09.reload", "reload-of-valid-config-failed", "reload (%s) failed: %v", d, err)
			return
		}
		s.Fault("reload")
		h.note("reload v%d: %s", h.t.ver, d)
		// ---- oracle
		now := map[ident]*mBackend{}
		for _, c := range h.t.clusters {
			for _, su := range c.Subs {
				if hasDup(su) {
					dupSubs[c.Name+"/"+su.Name] = true
				}
				for _, b := range su.Backends {
					k := ident{c.Name, su.Name, b.AddrInfo()}
					if _, ok := now[k]; !ok {
						now[k] = b
					}
				}
			}
		}
		for _, k := range sortedIdents(before) {
			objs := before[k]
			dup := dupSubs[k.cluster+"/"+k.sub]
			nb, survives := now[k]
			ob := beforeModel[k]
			if survives && ob != nil && nb.Name == ob.Name && !dup {
				// survivor: same object state, not released
				rb := h.main.realBackend(k.cluster, k.sub, k.addr)
				s.Checked(1)
				if rb == nil {
					s.FailK("C09.survivor", "survivor-lost", "backend %v present before and after reload is gone from the balancer", k)
					return
				}
				if closed(rb) {
					s.FailK("C09.survivor", "survivor-released", "surviving backend %v was released by the reload", k)
					return
				}
				if rb.Avail() != ob.Up || rb.ConnNum() != ob.Conns || rb.FailNum() != fails[k] {
					s.FailK("C09.survivor", "survivor-state-lost", "surviving backend %v: avail/conn/fail = %v/%d/%d after reload, harness had %v/%d/%d (%s)",
						k, rb.Avail(), rb.ConnNum(), rb.FailNum(), ob.Up, ob.Conns, fails[k], d)
					return
				}
				s.Probe("survivor_checked")
			}
			if !survives {
				for _, o := range objs {
					s.Checked(1)
					if !closed(o) {
						s.FailK("C09.release", "removed-not-released", "backend %v removed by reload (%s) was not released (health checker would keep running)", k, d)
						return
					}
					released[o] = true
				}
				delete(fails, k)
				s.Probe("removed_checked")
			}
		}
		// sub-cluster level: after the reload every key goes where a freshly built
		// instance of the same configuration sends it (new sub-clusters get their
		// share, removed or zero-weight ones get no first-choice traffic)
		fresh, err := h.t.build(nil)
		if err != nil {
			s.FailK("C09.load", "twin-load", "fresh build of the reloaded configuration failed: %v", err)
			return
		}
		for _, c := range h.t.clusters {
			g := h.t.conf[c.Name]
			mb, err1 := h.main.table.Lookup(c.Name)
			fb, err2 := fresh.table.Lookup(c.Name)
			if err1 != nil || err2 != nil {
				s.FailK("C09.new", "new-cluster-missing", "cluster %s: lookup after reload: %v / %v", c.Name, err1, err2)
				return
			}
			for ki := range keyPool {
				freq := mkReq(g, ki, 0)
				fb.Balance(freq)
				des := c.sub(freq.Backend.SubclusterName)
				if des == nil || des.Name == "GSLB_BLACKHOLE" || len(des.eligible()) == 0 || dupSubs[c.Name+"/"+des.Name] {
					continue
				}
				mreq := mkReq(g, ki, 0)
				rb, rerr := mb.Balance(mreq)
				s.Checked(1)
				if mreq.Backend.SubclusterName != des.Name {
					s.Note("dbg", fmt.Sprintf("main returned %v err=%v errmsg=%s; designated rr: %s", addrOf(rb), rerr, mreq.ErrMsg, mb.VerifSubs()[des.Name].VerifDebug()))
					s.FailK("C09.new", "subcluster-choice-after-reload", "after reload (%s) key %d goes to %q, a fresh instance of the same config sends it to %q; gslb=%v",
						d, ki, mreq.Backend.SubclusterName, des.Name, subNames(c))
					return
				}
			}
		}
		// new identities become selectable within 2W smooth picks of their sub-cluster
		for _, k := range sortedIdentsM(now) {
			nb := now[k]
			if _, was := before[k]; was || dupSubs[k.cluster+"/"+k.sub] {
				continue
			}
			c := h.t.cluster(k.cluster)
			su := c.sub(k.sub)
			if su == nil || su.Name == "GSLB_BLACKHOLE" || !nb.eligible() {
				continue
			}
			bal, err := h.main.table.Lookup(k.cluster)
			if err != nil {
				s.FailK("C09.new", "new-cluster-missing", "cluster %s added by reload is not in the table", k.cluster)
				return
			}
			rr := bal.VerifSubs()[k.sub]
			if rr == nil {
				s.FailK("C09.new", "new-subcluster-missing", "sub-cluster %s added by reload is not in the balancer", k.sub)
				return
			}
			W := 0
			for _, b := range su.eligible() {
				W += b.Weight
			}
			found := false
			for i := 0; i < 2*W && !found; i++ {
				b, err := rr.Balance(bal_slb.WrrSmooth, nil)
				if err == nil && b.AddrInfo == k.addr {
					found = true
				}
			}
			s.Checked(1)
			if !found {
				s.FailK("C09.new", "new-never-selected", "backend %v added by reload (%s) was not selected in %d picks of its sub-cluster", k, d, 2*W)
				return
			}
			s.Probe("new_selectable_checked")
		}
	}
	// a final round of selections: nothing released may ever be returned
	for i := 0; i < 12 && !s.Failed(); i++ {
		if b := h.selectMember(); b != nil && released[b] {
			s.FailK("C09.zombie", "released-backend-selected", "a backend released by an earlier reload was selected again: %s", b.AddrInfo)
		}
	}
	s.Sample = map[string]interface{}{"initial": initial, "ops": h.log}
}

// selectMember: one Balance call; whatever is returned must be a member of the
// current configuration (never a removed target).
func (h *hist) selectMember() *backend.BfeBackend {
	s, tp := h.s, h.tp
	c := h.t.clusters[tp.Draw(len(h.t.clusters), "sel.cluster")]
	g := h.t.conf[c.Name]
	bal, err := h.main.table.Lookup(c.Name)
	if err != nil {
		s.FailK("C09.lookup", "cluster-missing", "configured cluster %s not in balancer table", c.Name)
		return nil
	}
	req := mkReq(g, tp.Draw(len(keyPool), "sel.key"), 0)
	b, err := bal.Balance(req)
	s.Checked(1)
	if err != nil || b == nil {
		return nil
	}
	su := c.sub(req.Backend.SubclusterName)
	if su == nil || su.find(b.AddrInfo) == nil {
		s.FailK("C09.zombie", "removed-target-selected", "selection returned %s in %q which is not in the current configuration", b.AddrInfo, req.Backend.SubclusterName)
		return nil
	}
	if closed(b) {
		s.FailK("C09.zombie", "released-backend-selected", "selection returned released backend %s", b.AddrInfo)
	}
	return b
}
