//go:build verif
// +build verif

package bfe_balance

import (
	"fmt"

	"github.com/bfenetworks/bfe/bfe_balance/bal_gslb"
	"github.com/bfenetworks/bfe/bfe_config/bfe_cluster_conf/gslb_conf"
	"verif/simrt"
)

// C14 (balancing leg): a balancer that reached a gslb configuration through a history of reloads
// picks the same sub-cluster for every hash key as a balancer freshly initialised with that
// configuration, whatever the map iteration order of the process.
func runC14bal(s *simrt.Sim) {
	tp := s.Tape
	names := []string{"a.bj", "b.gz", "c.sh", "d.hz", "e.nj", "0.first", "zz.last"}
	gen := func() gslb_conf.GslbClusterConf {
		c := gslb_conf.GslbClusterConf{}
		for _, n := range names {
			if tp.Chance(1, 2, "sub.present") {
				c[n] = []int{0, 1, 10, 50}[tp.Draw(4, "sub.weight")]
			}
		}
		if len(c) == 0 {
			c[names[0]] = 10
		}
		return c
	}
	nhist := tp.Range(1, 4, "n_reloads")
	var hist []gslb_conf.GslbClusterConf
	for i := 0; i <= nhist; i++ {
		hist = append(hist, gen())
	}
	final := hist[len(hist)-1]
	s.SetMapOrder(tp.Draw(4, "maporder.history"))
	reloaded := bal_gslb.NewBalanceGslb("c")
	if err := reloaded.Init(hist[0]); err != nil {
		return
	}
	for _, c := range hist[1:] {
		s.Fault("gslb_reload")
		if err := reloaded.Reload(c); err != nil {
			return
		}
	}
	s.SetMapOrder(tp.Draw(4, "maporder.fresh"))
	fresh := bal_gslb.NewBalanceGslb("c")
	if err := fresh.Init(final); err != nil {
		return
	}
	s.Note("op", fmt.Sprintf("history %v", hist))
	for i := 0; i < 64; i++ {
		key := []byte(fmt.Sprintf("10.%d.%d.%d", i, i*7%256, i*13%256))
		s.Checked(1)
		a, b := fresh.VerifSubFor(key), reloaded.VerifSubFor(key)
		if a != b {
			s.FailK("C14.balance", "sub-cluster-depends-on-reload-history", "gslb conf %v: a freshly started process balances key %s to sub-cluster %s, a process that reached the same conf through %d reload(s) (%v) balances it to %s", final, key, a, nhist, hist[:len(hist)-1], b)
			return
		}
	}
	s.Probe("c14_balance_history_checked")
}
