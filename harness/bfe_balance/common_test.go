//go:build verif
// +build verif

package bfe_balance

import (
	"encoding/json"
	"fmt"
	"io/ioutil"
	"os"
	"path/filepath"
	"testing"

	"verif/simrt"

	"github.com/bfenetworks/bfe/bfe_config/bfe_cluster_conf/cluster_table_conf"
	"github.com/bfenetworks/bfe/bfe_config/bfe_cluster_conf/gslb_conf"
)

func TestSim(t *testing.T) {
	simrt.Main(t, map[string]simrt.Prop{
		"C14bal": {Run: runC14bal},
		"C01": {Run: runC01},
		"C09": {Run: runC09},
		"C05": {Run: runC05, Opt: simrt.Options{MaxSteps: 60000, StuckClause: "C05.deadlock", MaxStepsClause: "C05.livelock"}},
		"C03": {Run: runHist("C03", genOpts{maxClusters: 2, maxSubs: 3, maxBackends: 4, maxWeight: 10, blackhole: true, zeroWeights: true, wlc: 1, sticky: 1, slowStart: true})},
		"C04": {Run: runHist("C04", genOpts{maxClusters: 1, maxSubs: 2, maxBackends: 5, maxWeight: 6, zeroWeights: true, wlc: 4, sticky: 0})},
		"C02": {Run: runHist("C02", genOpts{maxClusters: 2, maxSubs: 4, maxBackends: 5, maxWeight: 10, zeroWeights: true, wlc: 0, sticky: 2})},
	})
}

// ---- ground-truth model of a topology (what the harness configured and injected) ----

type mBackend struct {
	Name   string
	Addr   string
	Port   int
	Weight int
	Up     bool // as last set by the harness
	Conns  int  // connections the harness opened on it
}

func (b *mBackend) AddrInfo() string { return fmt.Sprintf("%s:%d", b.Addr, b.Port) }
func (b *mBackend) eligible() bool   { return b.Up && b.Weight > 0 }

type mSub struct {
	Name     string
	Weight   int // gslb weight
	Backends []*mBackend
}

func (s *mSub) eligible() []*mBackend {
	var r []*mBackend
	for _, b := range s.Backends {
		if b.eligible() {
			r = append(r, b)
		}
	}
	return r
}

func (s *mSub) find(addrInfo string) *mBackend {
	for _, b := range s.Backends {
		if b.AddrInfo() == addrInfo {
			return b
		}
	}
	return nil
}

type mCluster struct {
	Name string
	Subs []*mSub
}

var scratchDir string

func scratch() string {
	if scratchDir == "" {
		d, err := ioutil.TempDir(os.Getenv("SIM_SCRATCH"), "enga")
		if err != nil {
			panic(err)
		}
		scratchDir = d
	}
	return scratchDir
}

// loadClusterTable writes the topology as a cluster_table.data file and loads
// it through the real loader, so only loader-accepted configs are explored.
func loadClusterTable(clusters []*mCluster, version string, order []int) (cluster_table_conf.ClusterTableConf, error) {
	cfg := map[string]map[string][]map[string]interface{}{}
	for _, c := range clusters {
		cb := map[string][]map[string]interface{}{}
		for _, s := range c.Subs {
			if s.Name == "GSLB_BLACKHOLE" {
				continue
			}
			list := []map[string]interface{}{}
			idx := make([]int, len(s.Backends))
			for i := range idx {
				idx[i] = i
			}
			if order != nil {
				// caller-chosen permutation of the listing order
				for i := len(idx) - 1; i > 0; i-- {
					j := order[i%len(order)] % (i + 1)
					idx[i], idx[j] = idx[j], idx[i]
				}
			}
			for _, i := range idx {
				b := s.Backends[i]
				list = append(list, map[string]interface{}{"Name": b.Name, "Addr": b.Addr, "Port": b.Port, "Weight": b.Weight})
			}
			cb[s.Name] = list
		}
		cfg[c.Name] = cb
	}
	data, _ := json.Marshal(map[string]interface{}{"Version": version, "Config": cfg})
	fn := filepath.Join(scratch(), "cluster_table.data")
	if err := ioutil.WriteFile(fn, data, 0644); err != nil {
		panic(err)
	}
	return cluster_table_conf.ClusterTableLoad(fn)
}

func loadGslb(clusters []*mCluster, ts string) (gslb_conf.GslbConf, error) {
	cl := map[string]map[string]int{}
	for _, c := range clusters {
		m := map[string]int{}
		for _, s := range c.Subs {
			m[s.Name] = s.Weight
		}
		cl[c.Name] = m
	}
	data, _ := json.Marshal(map[string]interface{}{"Clusters": cl, "Hostname": "gslb-sim", "Ts": ts})
	fn := filepath.Join(scratch(), "gslb.data")
	if err := ioutil.WriteFile(fn, data, 0644); err != nil {
		panic(err)
	}
	return gslb_conf.GslbConfLoad(fn)
}

func subConf(s *mSub, order []int) (cluster_table_conf.SubClusterBackend, error) {
	c := &mCluster{Name: "c", Subs: []*mSub{s}}
	t, err := loadClusterTable([]*mCluster{c}, "v", order)
	if err != nil {
		return nil, err
	}
	return (*t.Config)["c"][s.Name], nil
}
