//go:build verif
// +build verif

package bfe_balance

import (
	"encoding/json"
	"fmt"
	"io/ioutil"
	"net"
	"path/filepath"
	"sort"
	"strings"
	"time"

	"verif/simrt"

	"github.com/bfenetworks/bfe/bfe_balance/backend"
	"github.com/bfenetworks/bfe/bfe_balance/bal_gslb"
	"github.com/bfenetworks/bfe/bfe_basic"
	"github.com/bfenetworks/bfe/bfe_http"
	"github.com/bfenetworks/bfe/bfe_route"
)

// gconf is the per-cluster gslb/basic configuration (cluster_conf.data).
type gconf struct {
	RetryMax   int
	CrossRetry int
	Strategy   int    // 0 ClientIdOnly 1 ClientIpOnly 2 ClientIdPreferred 3 RequestURI
	Header     string // "X-Uid" or "Cookie:UID"
	Sticky     bool
	Mode       string // WRR / WLC
	SlowStart  int
}

// topo is the ground truth the harness configured.
type topo struct {
	clusters []*mCluster
	conf     map[string]*gconf
	ver      int
}

func (t *topo) cluster(name string) *mCluster {
	for _, c := range t.clusters {
		if c.Name == name {
			return c
		}
	}
	return nil
}

func (c *mCluster) sub(name string) *mSub {
	for _, s := range c.Subs {
		if s.Name == name {
			return s
		}
	}
	return nil
}

type genOpts struct {
	maxClusters, maxSubs, maxBackends, maxWeight int
	blackhole                                    bool
	zeroWeights                                  bool
	wlc, sticky                                  int // chance out of 4
	slowStart                                    bool
}

var nextAddr int

//go:norace
func genBackend(tp *simrt.Tape, o genOpts, ci, si, bi int) *mBackend {
	w := tp.Range(1, o.maxWeight, "b.weight")
	if o.zeroWeights && tp.Chance(1, 8, "b.zero") {
		w = 0
	}
	nextAddr++
	return &mBackend{Name: fmt.Sprintf("c%ds%db%d-%d", ci, si, bi, nextAddr), Addr: fmt.Sprintf("10.%d.%d.%d", ci, si, 1+nextAddr%250), Port: 8000 + nextAddr%50, Weight: w, Up: true}
}

//go:norace
func genTopo(tp *simrt.Tape, o genOpts) *topo {
	nextAddr = 0
	t := &topo{conf: map[string]*gconf{}}
	nc := tp.Range(1, o.maxClusters, "n_clusters")
	for ci := 0; ci < nc; ci++ {
		c := &mCluster{Name: fmt.Sprintf("cl%d", ci)}
		ns := tp.Range(1, o.maxSubs, "n_subs")
		for si := 0; si < ns; si++ {
			s := &mSub{Name: fmt.Sprintf("sub%d.%s", si, c.Name), Weight: tp.Range(1, 10, "sub.weight")}
			if o.zeroWeights && tp.Chance(1, 5, "sub.zero") {
				s.Weight = tp.Draw(2, "sub.neg") * -1 // 0 or -1
			}
			nb := tp.Range(1, o.maxBackends, "n_backends")
			for bi := 0; bi < nb; bi++ {
				s.Backends = append(s.Backends, genBackend(tp, o, ci, si, bi))
			}
			if s.Backends[0].Weight == 0 {
				s.Backends[0].Weight = 1 // loader demands one positive weight per sub-cluster
			}
			c.Subs = append(c.Subs, s)
		}
		// the loader wants a positive total gslb weight per cluster
		pos := false
		for _, x := range c.Subs {
			if x.Weight > 0 {
				pos = true
			}
		}
		if !pos {
			c.Subs[tp.Draw(len(c.Subs), "sub.keep_positive")].Weight = tp.Range(1, 10, "sub.weight")
		}
		if o.blackhole && tp.Chance(1, 3, "blackhole") {
			c.Subs = append(c.Subs, &mSub{Name: "GSLB_BLACKHOLE", Weight: tp.Draw(4, "bh.weight")})
		}
		t.clusters = append(t.clusters, c)
		g := &gconf{RetryMax: tp.Draw(4, "retry_max"), CrossRetry: tp.Draw(3, "cross_retry"), Strategy: tp.Draw(4, "strategy"), Mode: "WRR"}
		g.Header = []string{"X-Uid", "Cookie:UID"}[tp.Draw(2, "hash_header")]
		g.Sticky = tp.Chance(o.sticky, 4, "sticky")
		if tp.Chance(o.wlc, 4, "wlc") {
			g.Mode = "WLC"
		}
		if o.slowStart {
			g.SlowStart = []int{0, 0, 5, 30}[tp.Draw(4, "slow_start")]
		}
		t.conf[c.Name] = g
	}
	return t
}

func (t *topo) writeClusterConf() string {
	cfg := map[string]interface{}{}
	for _, c := range t.clusters {
		g := t.conf[c.Name]
		cfg[c.Name] = map[string]interface{}{
			"BackendConf": map[string]interface{}{"SlowStartTime": g.SlowStart},
			"CheckConf":   map[string]interface{}{"Schem": "tcp", "FailNum": 3, "SuccNum": 2, "CheckInterval": 1000},
			"GslbBasic": map[string]interface{}{"CrossRetry": g.CrossRetry, "RetryMax": g.RetryMax, "BalanceMode": g.Mode,
				"HashConf": map[string]interface{}{"HashStrategy": g.Strategy, "HashHeader": g.Header, "SessionSticky": g.Sticky}},
			"ClusterBasic": map[string]interface{}{},
		}
	}
	data, _ := json.Marshal(map[string]interface{}{"Version": fmt.Sprintf("v%d", t.ver), "Config": cfg})
	fn := filepath.Join(scratch(), "cluster_conf.data")
	if err := ioutil.WriteFile(fn, data, 0644); err != nil {
		panic(err)
	}
	return fn
}

// writeBal writes gslb.data and cluster_table.data; order permutes the backend listing order.
func (t *topo) writeBal(order []int) (string, string) {
	if _, err := loadClusterTable(t.clusters, fmt.Sprintf("v%d", t.ver), order); err != nil {
		_ = err // the real loader is run again by the caller; here we only wrote the file
	}
	loadGslb(t.clusters, fmt.Sprintf("%d", t.ver))
	return filepath.Join(scratch(), "gslb.data"), filepath.Join(scratch(), "cluster_table.data")
}

// node is one instance of the real balancer stack built from files.
type node struct {
	table *BalTable
}

func (t *topo) applyBasic(n *node) error {
	ct := new(bfe_route.ClusterTable)
	if err := ct.Init(t.writeClusterConf()); err != nil {
		return err
	}
	n.table.SetGslbBasic(ct)
	n.table.SetSlowStart(ct)
	return nil
}

// build constructs a fresh balancer table from the topology through the real
// file loaders, the way BfeServer.InitDataLoad does.
func (t *topo) build(order []int) (*node, error) {
	g, c := t.writeBal(order)
	n := &node{table: NewBalTable(nil)}
	if err := n.table.Init(g, c); err != nil {
		return nil, err
	}
	if err := t.applyBasic(n); err != nil {
		return nil, err
	}
	return n, nil
}

// reload is what BfeServer.gslbDataConfReload does.
func (t *topo) reload(n *node) error {
	g, c := t.writeBal(nil)
	gc, bc, err := n.table.BalTableConfLoad(g, c)
	if err != nil {
		return err
	}
	if err := n.table.BalTableReload(gc, bc); err != nil {
		return err
	}
	return t.applyBasic(n)
}

// real returns the real backend objects of a node by (cluster, sub) in list order.
func (n *node) real(cluster, sub string) []*backend.BfeBackend {
	bal, err := n.table.Lookup(cluster)
	if err != nil {
		return nil
	}
	rr := bal.VerifSubs()[sub]
	if rr == nil {
		return nil
	}
	return rr.VerifBackends()
}

func (n *node) realBackend(cluster, sub, addrInfo string) *backend.BfeBackend {
	for _, b := range n.real(cluster, sub) {
		if b.AddrInfo == addrInfo {
			return b
		}
	}
	return nil
}

// applyDowns marks on node n every backend the ground truth has down.
func (t *topo) applyDowns(n *node) {
	for _, c := range t.clusters {
		for _, s := range c.Subs {
			for _, b := range s.Backends {
				if !b.Up {
					if rb := n.realBackend(c.Name, s.Name, b.AddrInfo()); rb != nil {
						rb.SetAvail(false)
					}
				}
			}
		}
	}
}

var keyPool = []string{"k0", "k1", "alpha", "beta-7", "uid=42", "zz", "10.9.8.7", "q"}

// mkReq builds a request whose hash key under the cluster's strategy is derived from key index ki.
func mkReq(g *gconf, ki int, retry int) *bfe_basic.Request {
	hr := &bfe_http.Request{Method: "GET", Header: bfe_http.Header{}, RequestURI: "/p/" + keyPool[ki%len(keyPool)]}
	if strings.HasPrefix(g.Header, "Cookie:") {
		hr.Header.Set("Cookie", strings.TrimPrefix(g.Header, "Cookie:")+"="+keyPool[ki%len(keyPool)])
	} else {
		hr.Header.Set(g.Header, keyPool[ki%len(keyPool)])
	}
	req := bfe_basic.NewRequest(hr, nil, &bfe_basic.RequestStat{}, nil, nil)
	req.ClientAddr = &net.TCPAddr{IP: net.IPv4(192, 168, byte(ki), byte(7*ki+1)), Port: 4000 + ki}
	req.RetryTime = retry
	return req
}

func subNames(c *mCluster) []string {
	var r []string
	for _, s := range c.Subs {
		r = append(r, fmt.Sprintf("%s=%d", s.Name, s.Weight))
	}
	sort.Strings(r)
	return r
}

func describe(t *topo) interface{} {
	out := map[string]interface{}{}
	for _, c := range t.clusters {
		subs := map[string]interface{}{}
		for _, s := range c.Subs {
			var bs []string
			for _, b := range s.Backends {
				bs = append(bs, fmt.Sprintf("%s w=%d up=%v", b.AddrInfo(), b.Weight, b.Up))
			}
			subs[fmt.Sprintf("%s(w=%d)", s.Name, s.Weight)] = bs
		}
		out[c.Name] = map[string]interface{}{"subs": subs, "gslb_basic": *t.conf[c.Name]}
	}
	return out
}

var _ = time.Second
var _ = bal_gslb.DefaultRetryMax
