//go:build verif
// +build verif

package bfe_bufio

import (
	"bufio"
	"bytes"
	"fmt"
	"io"
	"testing"
	"unicode/utf8"

	"verif/simrt"
	"verif/simrt/simio"
)

func TestSim(t *testing.T) {
	simrt.Main(t, map[string]simrt.Prop{
		"C22": {Run: runC22},
	})
}

func genStream(tp *simrt.Tape) []byte {
	n := []int{0, 5, 80, 700, 6000}[tp.Draw(5, "stream.class")]
	n = tp.Draw(n+1, "stream.len")
	b := make([]byte, 0, n+8)
	for len(b) < n {
		switch tp.Draw(12, "stream.byte") {
		case 0:
			b = append(b, '\n')
		case 1:
			b = append(b, '\r', '\n')
		case 2:
			b = append(b, '\r')
		case 3:
			b = append(b, []byte("é")...)
		case 4:
			b = append(b, []byte("世")...)
		case 5:
			b = append(b, 0xff)
		default:
			b = append(b, byte('a'+len(b)%26))
		}
	}
	return b
}

// C22: the buffered reader and writer deliver exactly the underlying stream, in
// order, for any mix of operations and underlying chunk sizes, and the running
// counters equal the bytes consumed / produced so far.
func runC22(s *simrt.Sim) {
	tp := s.Tape
	nofault := simrt.Mode() == "nofault"
	if tp.Chance(1, 3, "writer_side") {
		runC22Writer(s, nofault)
		return
	}
	stream := genStream(tp)
	seg := 0
	if !nofault {
		seg = []int{0, 2, 5}[tp.Draw(3, "seg")]
	}
	src := simio.NewReader(s, stream, seg)
	src.ZeroReads = !nofault && tp.Chance(1, 5, "zero_reads")
	failAt := -1
	if !nofault && tp.Chance(1, 6, "src_error") && len(stream) > 0 {
		failAt = tp.Draw(len(stream), "src_error.at")
		src.ErrAt, src.Err = failAt, simio.ErrInjected
	}
	size := []int{16, 17, 64, 4096}[tp.Draw(4, "buf.size")]
	r := NewReaderSize(src, size)
	// a second, standard-library reader over the same bytes delivered whole (return conventions)
	std := bufio.NewReaderSize(bytes.NewReader(stream), size)
	useStd := seg == 0 && failAt < 0 && !src.ZeroReads
	pos := 0       // bytes consumed so far
	lastKind := "" // for Unread* legality
	rlTaint := false // only Unread* / Peek / Buffered since the last ReadLine
	lastRune := 0
	nops := tp.Range(1, 60, "n_ops")
	var log []string
	fail := func(clause, key, f string, a ...interface{}) {
		s.FailK(clause, key, "%s; ops so far: %v (buffer %d, stream %d bytes, seg %d)", fmt.Sprintf(f, a...), log, size, len(stream), seg)
	}
	limit := len(stream)
	if failAt >= 0 {
		limit = failAt
	}
	for i := 0; i < nops && !s.Failed(); i++ {
		op := tp.Draw(11, "op")
		var data []byte
		var err error
		consumed := 0
		desc := ""
		switch op {
		case 0:
			buf := make([]byte, tp.Draw(100, "read.len"))
			var n int
			n, err = r.Read(buf)
			data, consumed, desc = buf[:n], n, fmt.Sprintf("Read(%d)", len(buf))
			if useStd {
				sb := make([]byte, len(buf))
				sn, _ := std.Read(sb)
				if sn != n {
					useStd = false // Read may legitimately return fewer bytes; the two readers are out of step from here
				}
			}
		case 1:
			var c byte
			c, err = r.ReadByte()
			desc = "ReadByte"
			if err == nil {
				data, consumed = []byte{c}, 1
			}
			if useStd {
				sc, serr := std.ReadByte()
				if (serr == nil) != (err == nil) || sc != c {
					fail("C22.stdlike", "readbyte-differs-from-std", "ReadByte (%q,%v) vs std (%q,%v)", c, err, sc, serr)
					return
				}
			}
		case 2:
			delim := []byte{'\n', 'a', 0xff}[tp.Draw(3, "delim")]
			data, err = r.ReadSlice(delim)
			data = append([]byte(nil), data...)
			consumed, desc = len(data), fmt.Sprintf("ReadSlice(%q)", delim)
			if useStd {
				sd, serr := std.ReadSlice(delim)
				if !bytes.Equal(sd, data) || fmt.Sprint(serr) != fmt.Sprint(err) && !(serr == bufio.ErrBufferFull && err == ErrBufferFull) {
					fail("C22.stdlike", "readslice-differs-from-std", "%s returned (%d bytes,%v), std bufio (%d bytes,%v)", desc, len(data), err, len(sd), serr)
					return
				}
			}
		case 3:
			var isPrefix bool
			var line []byte
			before := r.TotalRead
			line, isPrefix, err = r.ReadLine()
			line = append([]byte(nil), line...)
			desc = fmt.Sprintf("ReadLine->%d,%v", len(line), isPrefix)
			// ReadLine strips the line end: what it consumed is the line plus 0..2 end bytes
			consumed = -1
			for k := 0; k <= 2 && consumed < 0; k++ {
				if pos+len(line)+k <= len(stream) && bytes.Equal(stream[pos:pos+len(line)], line) {
					tail := string(stream[pos+len(line) : pos+len(line)+k])
					if tail == "" && (isPrefix || pos+len(line) >= limit || err != nil) || tail == "\n" || tail == "\r\n" {
						consumed = len(line) + k
					}
				}
			}
			if err != nil && len(line) == 0 {
				consumed = 0
			}
			if consumed < 0 {
				fail("C22.stream", "readline-bytes-not-from-stream", "%s: returned line is not the next bytes of the stream at offset %d", desc, pos)
				return
			}
			if useStd {
				sl, sp, serr := std.ReadLine()
				if len(sl) != len(line) || sp != isPrefix || (serr == nil) != (err == nil) {
					fail("C22.stdlike", "readline-differs-from-std", "ReadLine (%q,%v,%v) vs std (%q,%v,%v)", clip(line), isPrefix, err, clip(sl), sp, serr)
					return
				}
			}
			// counters: ReadLine must account for exactly what it consumed
			if d := r.TotalRead - before; d != consumed && !ambiguousLineEnd(stream, pos, len(line)) {
				fail("C22.counter", "readline-counter", "%s consumed %d bytes but TotalRead advanced by %d", desc, consumed, d)
				return
			}
			data = nil
			pos += consumed
			consumed = 0
			if r.TotalRead != pos && !ambiguousLineEnd(stream, pos-len(line), len(line)) {
				fail("C22.counter", "total-read-differs", "after %s: TotalRead=%d, bytes consumed=%d", desc, r.TotalRead, pos)
				return
			}
			pos = r.TotalRead // re-synchronise on the ambiguous straddling case only
		case 4:
			delim := []byte{'\n', 'b'}[tp.Draw(2, "delim")]
			data, err = r.ReadBytes(delim)
			consumed, desc = len(data), fmt.Sprintf("ReadBytes(%q)", delim)
			if useStd {
				sd, serr := std.ReadBytes(delim)
				if !bytes.Equal(sd, data) || (serr == nil) != (err == nil) {
					fail("C22.stdlike", "readbytes-differs-from-std", "%s (%d bytes,%v) vs std (%d bytes,%v)", desc, len(data), err, len(sd), serr)
					return
				}
			}
		case 5:
			n := tp.Draw(40, "peek.n")
			var p []byte
			p, err = r.Peek(n)
			desc = fmt.Sprintf("Peek(%d)", n)
			if pos+len(p) > len(stream) || !bytes.Equal(p, stream[pos:pos+len(p)]) {
				fail("C22.stream", "peek-wrong-bytes", "%s returned bytes that are not the next bytes of the stream at offset %d", desc, pos)
				return
			}
			if useStd {
				sp, serr := std.Peek(n)
				if n > size {
					sp = p // asking for more than the buffer can hold: only the error is compared
				}
				if !bytes.Equal(sp, p) || (serr == nil) != (err == nil) {
					fail("C22.stdlike", "peek-differs-from-std", "%s (%d bytes,%v) vs std (%d bytes,%v)", desc, len(p), err, len(sp), serr)
					return
				}
			}
		case 6:
			desc = "UnreadByte"
			err = r.UnreadByte()
			if useStd {
				// (the fork keeps the Go 1.2 contract: the last byte of any read operation may be
				// unread; modern bufio refuses in a few more situations - not a stream property)
				if lastKind == "ReadLine" || rlTaint {
					// bufio's ReadLine may hand a trailing '\r' back to the buffer without updating
					// what UnreadByte restores: the byte std gives back after it is not the last one it
					// handed out. The stream oracle below stays in force; std is no reference from here.
					useStd = false
					s.Probe("unreadbyte_after_readline")
				}
				serr := std.UnreadByte()
				if !useStd {
					serr = err
				}
				if serr == nil && err != nil {
					// the other direction is a regression: a byte bufio gives back is refused
					fail("C22.stdlike", "unreadbyte-refused-where-std-accepts", "UnreadByte returned %v after %s where bufio.Reader accepts it", err, lastKind)
					return
				}
				if (serr == nil) != (err == nil) {
					useStd = false
				}
			}
			if err == nil {
				if pos == 0 {
					fail("C22.stream", "unread-at-start", "UnreadByte succeeded with nothing read")
					return
				}
				consumed = -1
			}
		case 7:
			var ru rune
			var sz int
			ru, sz, err = r.ReadRune()
			desc = fmt.Sprintf("ReadRune->%q/%d", ru, sz)
			if err == nil {
				data, consumed = stream[pos:minI(pos+sz, limit)], sz
				wr, wsz := utf8.DecodeRune(stream[pos:limit])
				if sz != wsz || ru != wr {
					fail("C22.stream", "readrune-wrong", "ReadRune returned %q/%d, the stream has %q/%d at offset %d", ru, sz, wr, wsz, pos)
					return
				}
				lastRune = sz
			}
			if useStd {
				std.ReadRune()
			}
		case 8:
			desc = "UnreadRune"
			err = r.UnreadRune()
			if useStd {
				if serr := std.UnreadRune(); (serr == nil) != (err == nil) {
					useStd = false
				}
			}
			if err == nil {
				if lastKind != "ReadRune" {
					fail("C22.stdlike", "unreadrune-after-non-rune", "UnreadRune succeeded although the last operation was %q", lastKind)
					return
				}
				consumed = -lastRune
			}
		case 9:
			var sink bytes.Buffer
			var n int64
			n, err = r.WriteTo(&sink)
			data, consumed, desc = sink.Bytes(), int(n), "WriteTo"
			if int(n) != sink.Len() {
				fail("C22.stream", "writeto-count", "WriteTo returned %d but wrote %d bytes", n, sink.Len())
				return
			}
			if useStd {
				var ssink bytes.Buffer
				std.WriteTo(&ssink)
			}
		case 10:
			desc = "Buffered"
			if b := r.Buffered(); b < 0 || pos+b > len(stream) {
				fail("C22.stream", "buffered-out-of-range", "Buffered()=%d at offset %d of %d", b, pos, len(stream))
				return
			}
			if useStd {
				_ = std.Buffered()
			}
		}
		log = append(log, desc)
		s.Note("op", desc)
		if len(log) > 14 {
			log = log[1:]
		}
		s.Checked(1)
		if op == 3 {
			lastKind = "ReadLine"
			rlTaint = true
			continue
		}
		if consumed > 0 {
			if pos+consumed > len(stream) || (data != nil && !bytes.Equal(data, stream[pos:pos+consumed])) {
				fail("C22.stream", "bytes-not-from-stream", "%s returned %d bytes that are not the next bytes of the stream at offset %d: %q vs %q", desc, consumed, pos, clip(data), clip(stream[pos:minI(pos+consumed, len(stream))]))
				return
			}
		}
		pos += consumed
		if pos < 0 {
			fail("C22.stream", "unread-below-zero", "more bytes unread than read")
			return
		}
		if r.TotalRead != pos {
			fail("C22.counter", "total-read-differs:"+kindOf(desc), "after %s: TotalRead=%d but %d bytes were consumed", desc, r.TotalRead, pos)
			return
		}
		if err != nil && err != io.EOF && err != ErrBufferFull && failAt < 0 && err != io.ErrNoProgress && desc != "UnreadByte" && desc != "UnreadRune" && desc[:4] != "Peek" {
			fail("C22.stream", "unexpected-error", "%s failed with %v on a healthy source", desc, err)
			return
		}
		if err == io.EOF && pos < limit && desc[:4] != "Peek" {
			fail("C22.stream", "early-eof", "%s reported EOF at offset %d of %d", desc, pos, limit)
			return
		}
		switch op {
		case 3:
			rlTaint = true
		case 5, 6, 8, 10:
		case 0:
			if consumed > 0 {
				rlTaint = false
			}
		default:
			rlTaint = false
		}
		switch {
		case op == 0:
			if consumed > 0 {
				lastKind = "Read" // a Read that returns nothing changes nothing
			}
		case op == 1 && err == nil:
			lastKind = "ReadByte"
		case op == 7 && err == nil:
			lastKind = "ReadRune"
		case op == 10 || op == 5:
		default:
			lastKind = "other"
		}
		// once the stream diverges from std (after an Unread the two readers may disagree legitimately), stop comparing
		_ = lastRune
	}
	s.Probe("reader_script")
	s.Sample = map[string]interface{}{"side": "reader", "stream": len(stream), "buf": size, "seg": seg, "ops": log, "consumed": pos}
}

func kindOf(desc string) string {
	for i := 0; i < len(desc); i++ {
		if desc[i] == '(' || desc[i] == '-' {
			return desc[:i]
		}
	}
	return desc
}

// a "\r" in the last buffer slot followed by "\n": ReadLine gives the '\r' back
// (it belongs to the line end), so the count of that call is one less than the
// fragment length plus nothing; the model cannot know from the outside.
func ambiguousLineEnd(stream []byte, pos, n int) bool {
	return pos+n < len(stream) && stream[pos+n] == '\r'
}

func clip(b []byte) []byte {
	if len(b) > 32 {
		return b[:32]
	}
	return b
}

func minI(a, b int) int {
	if a < b {
		return a
	}
	return b
}

// ---- writer side ----

func runC22Writer(s *simrt.Sim, nofault bool) {
	tp := s.Tape
	sink := simio.NewWriter(s)
	if !nofault && tp.Chance(1, 5, "sink_fail") {
		sink.FailAt, sink.Err = tp.Draw(3000, "sink_fail.at"), simio.ErrInjected
	}
	size := []int{16, 64, 4096}[tp.Draw(3, "buf.size")]
	var under io.Writer = sink
	if tp.Chance(1, 2, "sink_readerfrom") {
		under = simio.RFWriter{Writer: sink} // an underlying writer with ReadFrom (net.TCPConn-like)
		s.Probe("sink_readerfrom")
	}
	w := NewWriterSize(under, size)
	var want []byte // bytes accepted so far
	nops := tp.Range(1, 50, "n_ops")
	var log []string
	failed := false
	for i := 0; i < nops && !s.Failed(); i++ {
		op := tp.Draw(6, "wop")
		desc := ""
		var err error
		switch op {
		case 0:
			d := make([]byte, tp.Draw(120, "w.len"))
			for k := range d {
				d[k] = byte('A' + (len(want)+k)%26)
			}
			var n int
			n, err = w.Write(d)
			desc = fmt.Sprintf("Write(%d)->%d", len(d), n)
			if n < 0 || n > len(d) || (n < len(d) && err == nil) {
				s.FailK("C22.write", "short-write-no-error", "%s with err=%v", desc, err)
				return
			}
			want = append(want, d[:n]...)
		case 1:
			err = w.WriteByte('z')
			desc = "WriteByte"
			if err == nil {
				want = append(want, 'z')
			}
		case 2:
			ru := []rune{'x', 'é', '世', 0x10FFFF}[tp.Draw(4, "rune")]
			var n int
			n, err = w.WriteRune(ru)
			desc = fmt.Sprintf("WriteRune(%q)->%d", ru, n)
			if err == nil {
				want = append(want, []byte(string(ru))...)
			} else {
				want = append(want, []byte(string(ru))[:minI(n, len(string(ru)))]...)
			}
		case 3:
			str := string(bytes.Repeat([]byte("s"), tp.Draw(90, "ws.len")))
			var n int
			n, err = w.WriteString(str)
			desc = fmt.Sprintf("WriteString(%d)->%d", len(str), n)
			want = append(want, str[:n]...)
		case 4:
			d := bytes.Repeat([]byte("r"), tp.Draw(300, "rf.len"))
			src := simio.NewReader(s, d, []int{0, 3}[tp.Draw(2, "rf.seg")])
			var n int64
			n, err = w.ReadFrom(src)
			desc = fmt.Sprintf("ReadFrom(%d)->%d", len(d), n)
			if n < 0 || int(n) > len(d) {
				s.FailK("C22.write", "readfrom-count", "%s", desc)
				return
			}
			want = append(want, d[:n]...)
		case 5:
			err = w.Flush()
			desc = "Flush"
			if err == nil && !failed && !bytes.Equal(sink.Buf, want) {
				s.FailK("C22.stream", "flushed-bytes-differ", "after Flush the sink holds %d bytes, %d were accepted; ops %v", len(sink.Buf), len(want), log)
				return
			}
		}
		log = append(log, desc)
		s.Note("op", desc)
		if len(log) > 14 {
			log = log[1:]
		}
		s.Checked(1)
		if err != nil {
			failed = true // after an error the writer is broken by contract; only sanity from here on
		}
		if !failed {
			if w.TotalWrite != len(want) {
				s.FailK("C22.counter", "total-write-differs:"+kindOf(desc), "after %s: TotalWrite=%d but %d bytes were accepted; ops %v", desc, w.TotalWrite, len(want), log)
				return
			}
			if got := append(append([]byte{}, sink.Buf...), make([]byte, 0)...); len(got)+w.Buffered() != len(want) || !bytes.Equal(got, want[:len(got)]) {
				s.FailK("C22.stream", "written-bytes-differ", "sink %d + buffered %d != accepted %d (or content differs); ops %v", len(got), w.Buffered(), len(want), log)
				return
			}
		} else if !bytes.HasPrefix(want, sink.Buf) {
			s.FailK("C22.stream", "written-bytes-not-prefix", "after a sink error the sink holds bytes that were never written; ops %v", log)
			return
		}
	}
	s.Probe("writer_script")
	s.Sample = map[string]interface{}{"side": "writer", "buf": size, "ops": log, "accepted": len(want)}
}
