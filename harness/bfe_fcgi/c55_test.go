//go:build verif
// +build verif

package bfe_fcgi

import (
	"bytes"
	"encoding/binary"
	"fmt"
	"io"
	"io/ioutil"
	"sort"
	"strings"
	"testing"
	"time"

	"verif/simrt"
	"verif/simrt/simnet"
)

// Engine D5 / C55: the real FCGIClient on a simulated connection. A responder task decodes the
// record stream per the FastCGI specification (written from the spec, independent of the client's
// encoder) and answers with a seeded record sequence: STDOUT in chunks with padding, STDERR records
// interleaved, empty STDOUT / STDERR terminators, END_REQUEST. Reads are segmented.

func TestSim(t *testing.T) {
	simrt.Main(t, map[string]simrt.Prop{
		"C55": {Run: runC55, Opt: simrt.Options{MaxSteps: 400000}},
	})
}

type frec struct {
	typ     uint8
	id      uint16
	content []byte
	pad     int
}

// readRecord: spec 3.3
func readRecord(r io.Reader) (*frec, error) {
	var h [8]byte
	if _, err := io.ReadFull(r, h[:]); err != nil {
		return nil, err
	}
	if h[0] != 1 {
		return nil, fmt.Errorf("version %d", h[0])
	}
	rec := &frec{typ: h[1], id: binary.BigEndian.Uint16(h[2:]), pad: int(h[6])}
	cl := int(binary.BigEndian.Uint16(h[4:]))
	rec.content = make([]byte, cl)
	if _, err := io.ReadFull(r, rec.content); err != nil {
		return nil, err
	}
	if _, err := io.ReadFull(r, make([]byte, rec.pad)); err != nil {
		return nil, err
	}
	return rec, nil
}

// decodePairs: spec 3.4, over the concatenated PARAMS stream
func decodePairs(b []byte) (map[string]string, error) {
	out := map[string]string{}
	size := func() (int, error) {
		if len(b) == 0 {
			return 0, fmt.Errorf("truncated length")
		}
		if b[0]&0x80 == 0 {
			n := int(b[0])
			b = b[1:]
			return n, nil
		}
		if len(b) < 4 {
			return 0, fmt.Errorf("truncated 4-byte length")
		}
		n := int(binary.BigEndian.Uint32(b) &^ (1 << 31))
		b = b[4:]
		return n, nil
	}
	for len(b) > 0 {
		nl, err := size()
		if err != nil {
			return out, err
		}
		vl, err := size()
		if err != nil {
			return out, err
		}
		if nl+vl > len(b) {
			return out, fmt.Errorf("pair of %d+%d bytes, %d left", nl, vl, len(b))
		}
		out[string(b[:nl])] = string(b[nl : nl+vl])
		b = b[nl+vl:]
	}
	return out, nil
}

func wrec(w io.Writer, typ uint8, id uint16, content []byte, pad int) error {
	h := []byte{1, typ, byte(id >> 8), byte(id), byte(len(content) >> 8), byte(len(content)), byte(pad), 0}
	_, err := w.Write(append(append(h, content...), make([]byte, pad)...))
	return err
}

func sized(n int, salt byte) string {
	b := make([]byte, n)
	for i := range b {
		b[i] = 'a' + byte((i*7+int(salt))%26)
	}
	return string(b)
}

func runC55(s *simrt.Sim) {
	tp := s.Tape
	faults := simrt.Mode() != "nofault"
	s.SetSticky([]int{2, 4, 10}[tp.Draw(3, "sched.strategy")])
	net := simnet.New(s)
	if faults {
		net.Seg = []int{0, 3, 8}[tp.Draw(3, "net.seg")]
	}
	cli, srv := net.Pair("10.0.0.1:40000", "10.2.0.9:9000")
	// parameters
	params := map[string]string{"REQUEST_METHOD": "POST", "SCRIPT_FILENAME": "/index.php"}
	sizes := []int{0, 1, 126, 127, 128, 129, 300, 5000, 65400, 65535, 70000, 140000}
	for k := tp.Draw(5, "n_params"); k > 0; k-- {
		nl := []int{1, 5, 127, 128, 300}[tp.Draw(5, "param.name_class")]
		if tp.Chance(1, 12, "param.huge_name") {
			nl = []int{65400, 65500, 70000}[tp.Draw(3, "param.huge_name_len")]
		}
		vl := sizes[tp.Draw(len(sizes), "param.value_class")]
		params["P"+sized(nl-1, byte(k))] = sized(vl, byte(k+3))
	}
	body := []byte(sized([]int{0, 10, 3000, 70000, 140000}[tp.Draw(5, "body.class")], 9))
	// the responder's script
	type outRec struct {
		typ     uint8
		content []byte
		pad     int
	}
	respBody := []byte(sized([]int{0, 5, 2000, 70000}[tp.Draw(4, "resp.class")], 4))
	stdout := append([]byte("Status: 200 OK\r\nContent-Type: text/plain\r\nX-App: verif\r\n\r\n"), respBody...)
	var script []outRec
	rest := stdout
	stderrN := 0
	for len(rest) > 0 || stderrN == 0 && tp.Chance(1, 3, "stderr.tail") {
		if tp.Chance(1, 4, "stderr") {
			msg := []byte(fmt.Sprintf("PHP Warning: something on line %d\n", stderrN))
			if tp.Chance(1, 4, "stderr.empty") {
				msg = nil // an empty STDERR record closes the application's stderr stream
			}
			script = append(script, outRec{FCGIStderr, msg, tp.Draw(8, "pad")})
			stderrN++
			continue
		}
		if len(rest) == 0 {
			break
		}
		n := []int{1, 50, 4000, 65535}[tp.Draw(4, "stdout.chunk")]
		if n > len(rest) {
			n = len(rest)
		}
		script = append(script, outRec{FCGIStdout, rest[:n], tp.Draw(8, "pad")})
		rest = rest[n:]
	}
	script = append(script, outRec{FCGIStdout, nil, 0})
	var gotParams map[string]string
	var gotBody []byte
	var recErr error
	maxRec := 0
	var recs int
	responder := simrt.GoNamed("fcgi.responder", nil, func() {
		defer srv.Close()
		var pstream []byte
		pdone, sdone := false, false
		for !pdone || !sdone {
			rec, err := readRecord(srv)
			if err != nil {
				recErr = fmt.Errorf("record %d: %v", recs, err)
				return
			}
			recs++
			if len(rec.content) > maxRec {
				maxRec = len(rec.content)
			}
			switch rec.typ {
			case FCGIBeginRequest:
			case FCGIParams:
				if len(rec.content) == 0 {
					pdone = true
				}
				pstream = append(pstream, rec.content...)
			case FCGIStdin:
				if len(rec.content) == 0 {
					sdone = true
				}
				gotBody = append(gotBody, rec.content...)
			default:
				recErr = fmt.Errorf("record %d of unexpected type %d", recs, rec.typ)
				return
			}
		}
		var err error
		gotParams, err = decodePairs(pstream)
		if err != nil {
			recErr = fmt.Errorf("PARAMS stream does not decode: %v", err)
		}
		for _, o := range script {
			if wrec(srv, o.typ, 1, o.content, o.pad) != nil {
				return
			}
			if o.typ == FCGIStderr {
				s.Fault("stderr_record")
			}
		}
		wrec(srv, FCGIEndRequest, 1, make([]byte, 8), 0)
	})
	var respGot []byte
	var status int
	var cerr error
	var hdrApp, hdrAll string
	client := simrt.GoNamed("fcgi.client", nil, func() {
		defer func() {
			if p := recover(); p != nil {
				cerr = fmt.Errorf("PANIC: %v", p)
				cli.Close()
			}
		}()
		c := &FCGIClient{rwc: cli, reqId: 1}
		cli.SetReadDeadline(time.Now().Add(5 * time.Minute))
		pcopy := map[string]string{}
		for k, v := range params {
			pcopy[k] = v
		}
		resp, err := c.Request(pcopy, bytes.NewReader(body))
		if err != nil {
			cerr = err
			cli.Close()
			return
		}
		status = resp.StatusCode
		hdrApp = resp.Header.Get("X-App")
		hdrAll = fmt.Sprint(resp.Header)
		respGot, cerr = ioutil.ReadAll(resp.Body)
		cli.Close()
	})
	simrt.Join(client, responder)
	s.Checked(1)
	desc := func() string {
		var ks []string
		for k, v := range params {
			ks = append(ks, fmt.Sprintf("%d/%d", len(k), len(v)))
		}
		sort.Strings(ks)
		return fmt.Sprintf("param sizes name/value %v, body %d bytes", ks, len(body))
	}
	if cerr != nil && strings.HasPrefix(cerr.Error(), "PANIC") {
		s.FailK("C55.crash", "client-panics", "%s: %v", desc(), cerr)
		return
	}
	if recErr != nil {
		s.FailK("C55.records", "records-do-not-decode", "%s: what the client wrote does not decode per the FastCGI specification: %v", desc(), recErr)
		return
	}
	if gotParams == nil {
		s.FailK("C55.records", "request-incomplete", "%s: the responder never saw the end of PARAMS and STDIN (client error: %v)", desc(), cerr)
		return
	}
	for k, v := range params {
		g, ok := gotParams[k]
		if !ok || g != v {
			s.FailK("C55.params", "parameter-altered", "parameter with a %d-byte name and a %d-byte value arrived as present=%v with a %d-byte value (%s)", len(k), len(v), ok, len(g), desc())
			return
		}
	}
	if len(gotParams) != len(params) {
		s.FailK("C55.params", "parameters-added", "%d parameters sent, %d decoded", len(params), len(gotParams))
		return
	}
	if !bytes.Equal(gotBody, body) {
		s.FailK("C55.body", "stdin-altered", "request body of %d bytes arrived as %d bytes on STDIN", len(body), len(gotBody))
		return
	}
	if maxRec > 65535 {
		s.FailK("C55.records", "record-too-large", "a record of %d content bytes", maxRec)
		return
	}
	// a client that does not tell STDERR from STDOUT hands the application's diagnostics on as part of
	// the response: in the body, in a header value, or in the middle of the header block where they
	// break header parsing
	stderrBeforeBodyStarts := false
	seenOut := 0
	hdrLen := bytes.Index(stdout, []byte("\r\n\r\n")) + 4
	for _, o := range script {
		if o.typ == FCGIStderr && len(o.content) > 0 && seenOut < hdrLen {
			stderrBeforeBodyStarts = true
		}
		if o.typ == FCGIStdout {
			seenOut += len(o.content)
		}
	}
	mixedIsWhatArrived := func() bool {
		if bytes.Contains(respGot, []byte("PHP Warning")) || strings.Contains(hdrAll, "PHP Warning") {
			return true
		}
		return cerr != nil && stderrBeforeBodyStarts
	}
	if mixedIsWhatArrived() {
		s.FailK("C55.response", "stderr-mixed-into-response", "the application wrote %d STDERR record(s) between its STDOUT records; their text is part of what the client takes for the CGI response (status %d, %d body bytes, read error %v) although only the STDOUT stream makes up the response", stderrN, status, len(respGot), cerr)
		return
	}
	if cerr != nil {
		s.FailK("C55.response", "response-not-read", "%s: reading the response failed: %v", desc(), cerr)
		return
	}
	if status != 200 || hdrApp != "verif" || !bytes.Equal(respGot, respBody) {
		where := firstDiffB(respGot, respBody)
		s.FailK("C55.response", "response-is-not-the-stdout-stream", "the application wrote a %d-byte body on STDOUT (and %d STDERR records); the HTTP response has status %d, X-App %q and a %d-byte body that differs at offset %d: %q", len(respBody), stderrN, status, hdrApp, len(respGot), where, clipB(respGot[minI(where, len(respGot)):], 60))
		return
	}
	s.Probe("fcgi_exchange_checked")
	if stderrN > 0 {
		s.Probe("fcgi_stderr_interleaved")
	}
	if maxRec == 65535 || len(body) > 65535 {
		s.Probe("fcgi_multi_record_stream")
	}
}

func minI(a, b int) int {
	if a < b {
		return a
	}
	return b
}

func firstDiffB(a, b []byte) int {
	n := minI(len(a), len(b))
	for i := 0; i < n; i++ {
		if a[i] != b[i] {
			return i
		}
	}
	return n
}

func clipB(b []byte, n int) []byte {
	if len(b) > n {
		return b[:n]
	}
	return b
}
