//go:build verif
// +build verif

package bfe_http

import (
	"bytes"
	"fmt"
	"io"
	"strings"
	"testing"

	"verif/simrt"
	"verif/simrt/href"
	"verif/simrt/simio"

	"github.com/bfenetworks/bfe/bfe_bufio"
)

func TestSim(t *testing.T) {
	simrt.Main(t, map[string]simrt.Prop{
		"C23": {Run: runC23},
		"C24": {Run: runC24},
	})
}

// readAllSeg drains r with seeded read-buffer sizes.
func readAllSeg(s *simrt.Sim, r io.Reader, limit int) ([]byte, error) {
	var out []byte
	buf := make([]byte, 512)
	for i := 0; i < 100000; i++ {
		k := 1 + s.Draw(len(buf), "rd.buf")
		n, err := r.Read(buf[:k])
		out = append(out, buf[:n]...)
		if err != nil {
			return out, err
		}
		if len(out) > limit {
			return out, fmt.Errorf("more than %d bytes decoded", limit)
		}
	}
	return out, fmt.Errorf("reader never finished")
}

var sizeLineMutations = []string{"", " ", "+5", "-5", "0x5", "5 ", " 5", "5;ext=1", "5 ;ext", "00000000000000005", "fffffffffffffffff", "10000000000000000",
	"7fffffffffffffff", "5\t", "g", "5\x00", "\x15", "5\r", "٥"}

// C23: chunked bodies decode to exactly what the encoder produced, under any
// chunking and any segmentation of the byte stream; malformed or truncated
// encodings are errors, never a differently framed (shorter) body.
func runC23(s *simrt.Sim) {
	tp := s.Tape
	nofault := simrt.Mode() == "nofault"
	// ---- encoder -> decoder round trip
	n := []int{0, 1, 17, 300, 5000}[tp.Draw(5, "body_class")]
	n = tp.Draw(n+1, "body_len")
	body := make([]byte, n)
	for i := range body {
		body[i] = byte((i*131 + n) % 251)
	}
	var enc bytes.Buffer
	cw := newChunkedWriter(&enc)
	left := body
	var chunks []int
	for len(left) > 0 {
		k := 1 + tp.Draw(minInt(len(left), 1200), "chunk")
		if _, err := cw.Write(left[:k]); err != nil {
			s.FailK("C23.encode", "encoder-error", "chunked writer failed: %v", err)
			return
		}
		chunks = append(chunks, k)
		left = left[k:]
	}
	if tp.Chance(1, 5, "empty_write") {
		cw.Write(nil) // an empty write must not terminate the body
	}
	cw.Close()
	enc.WriteString("\r\n")
	wire := enc.Bytes()
	seg := 0
	if !nofault {
		seg = []int{0, 2, 5}[tp.Draw(3, "seg")]
	}
	mutated := false
	desc := "valid"
	if !nofault {
		switch tp.Draw(6, "mutation") {
		case 1: // replace one chunk-size line
			m := sizeLineMutations[tp.Draw(len(sizeLineMutations), "mut.size")]
			if i := bytes.Index(wire, []byte("\r\n")); i >= 0 {
				// pick which size line: the first or the terminating one
				last := tp.Chance(1, 2, "mut.last")
				if tp.Chance(1, 2, "mut.decorate") {
					// the true size with stray blanks / controls around it: the framing that follows
					// still fits, so only the size-line grammar can refuse it
					pre := []string{"", " ", "\t", "\r", "\f", "\v"}[tp.Draw(6, "mut.pre")]
					suf := []string{"", " ", "\t", "\r", "\v", "\f", " \t"}[tp.Draw(7, "mut.suf")]
					if last {
						m = pre + "0" + suf
					} else {
						m = pre + string(wire[:i]) + suf
					}
					s.Probe("size_line_decorated")
				}
				if last {
					if j := bytes.LastIndex(wire, []byte("0\r\n\r\n")); j >= 0 {
						wire = append(append(append([]byte{}, wire[:j]...), []byte(m+"\r\n\r\n")...))
						desc = fmt.Sprintf("last size line %q", m)
					}
				} else {
					wire = append(append(append([]byte{}, []byte(m)...), wire[i:]...))
					desc = fmt.Sprintf("first size line %q", m)
				}
				mutated = true
			}
		case 2: // truncate the stream
			if len(wire) > 1 {
				k := tp.Draw(len(wire)-1, "mut.cut")
				wire = wire[:k]
				desc = fmt.Sprintf("cut at %d", k)
				mutated = true
			}
		case 3: // bare LF instead of CRLF somewhere
			if i := bytes.Index(wire, []byte("\r\n")); i >= 0 {
				wire = append(append(append([]byte{}, wire[:i]...), '\n'), wire[i+2:]...)
				desc = "bare LF after first size line"
				mutated = true
			}
		case 4: // corrupt the CRLF after chunk data
			if len(chunks) > 0 {
				hdr := len(fmt.Sprintf("%x\r\n", chunks[0]))
				p := hdr + chunks[0]
				if p+1 < len(wire) {
					wire = append([]byte{}, wire...)
					wire[p+tp.Draw(2, "mut.crlf")] = 'X'
					desc = "chunk data not followed by CRLF"
					mutated = true
				}
			}
		}
	}
	// reference verdict on the exact bytes
	refBody, _, refN, refErr := href.DecodeChunked(wire)
	if refErr == href.ErrIncomplete {
		// the chunked reader proper ends at the last-chunk line; the (empty) trailer section
		// and the final CRLF are consumed by its caller. A stream complete up to there is
		// complete at this level.
		if b2, _, n2, e2 := href.DecodeChunked(append(append([]byte{}, wire...), '\r', '\n')); e2 == nil && n2 == len(wire)+2 {
			refBody, refN, refErr = b2, n2, nil
		}
	}
	pureCut := strings.HasPrefix(desc, "cut at")
	// BFE: decode through a segmenting reader
	src := simio.NewReader(s, wire, seg)
	src.ZeroReads = !nofault && tp.Chance(1, 4, "zero_reads")
	var rd io.Reader = src
	if tp.Chance(1, 2, "own_bufio") {
		rd = bfe_bufio.NewReaderSize(src, []int{16, 64, 4096}[tp.Draw(3, "bufio_size")])
	}
	got, err := readAllSeg(s, newChunkedReader(rd), len(wire)+10)
	s.Checked(1)
	s.Note("op", fmt.Sprintf("body=%d chunks=%d %s seg=%d -> ref(err=%v,len=%d) bfe(err=%v,len=%d)", len(body), len(chunks), desc, seg, refErr, len(refBody), err, len(got)))
	switch {
	case refErr == nil:
		_ = refN
		if mutated && err != io.EOF && err != nil {
			// a variant the RFC allows (chunk extension, BWS) but the encoder never produces:
			// refusing it is stricter than necessary, not a differently framed body
			s.Probe("legal_variant_refused")
			break
		}
		if err != io.EOF || !bytes.Equal(got, refBody) {
			key := "valid-encoding-misdecoded"
			if mutated {
				key = "reference-valid-variant-misdecoded"
			}
			s.FailK("C23.decode", key, "%s: reference decodes %d bytes; BFE returned %d bytes, err=%v (body %d bytes, chunks %v)", desc, len(refBody), len(got), err, len(body), chunks)
			return
		}
		s.Probe("roundtrip_ok")
	case refErr == href.ErrIncomplete:
		// truncated: never a clean EOF
		if err == io.EOF || err == nil {
			s.FailK("C23.truncated", "truncated-stream-ends-cleanly", "%s: the encoding is truncated but the reader reported a clean end after %d bytes", desc, len(got))
			return
		}
		if pureCut && !bytes.HasPrefix(body, got) {
			s.FailK("C23.truncated", "truncated-stream-wrong-bytes", "%s: bytes returned before the error are not a prefix of the body", desc)
			return
		}
		s.Probe("truncation_rejected")
	default:
		// malformed by the grammar: must be an error, not a differently framed body
		if err == io.EOF || err == nil {
			s.FailK("C23.malformed", "malformed-encoding-accepted:"+mutKey(desc), "%s: the reference rejects it (%v) but BFE decoded %d bytes and reported a clean end", desc, refErr, len(got))
			return
		}
		s.Probe("malformed_rejected")
	}
	s.Sample = map[string]interface{}{"body": len(body), "chunks": len(chunks), "variant": desc, "seg": seg}
}

func mutKey(desc string) string {
	if len(desc) > 40 {
		desc = desc[:40]
	}
	return desc
}

func minInt(a, b int) int {
	if a < b {
		return a
	}
	return b
}
