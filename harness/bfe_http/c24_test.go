//go:build verif
// +build verif

package bfe_http

import "verif/simrt"

func runC24(s *simrt.Sim) { s.Sample = "not built yet" }
