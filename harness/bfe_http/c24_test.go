//go:build verif
// +build verif

package bfe_http

import (
	"bytes"
	"fmt"
	"io"
	"io/ioutil"
	"sort"
	"strings"

	"verif/simrt"
	"verif/simrt/href"
	"verif/simrt/simio"

	"github.com/bfenetworks/bfe/bfe_bufio"
)

// one generated request: wire bytes + whether a strict RFC 7230 parser must reject it
type c24req struct {
	wire  []byte
	shape string
}

func c24body(tp *simrt.Tape, max int) []byte {
	n := tp.Draw(max+1, "body.len")
	b := make([]byte, n)
	for i := range b {
		b[i] = byte('a' + (i*5+n)%26)
	}
	return b
}

func chunkedWire(tp *simrt.Tape, body []byte, trailer bool) string {
	var b bytes.Buffer
	left := body
	for len(left) > 0 {
		k := 1 + tp.Draw(minInt(len(left), 60), "chunk")
		fmt.Fprintf(&b, "%x\r\n%s\r\n", k, left[:k])
		left = left[k:]
	}
	b.WriteString("0\r\n")
	if trailer {
		b.WriteString("X-Trailer: t\r\n")
	}
	b.WriteString("\r\n")
	return b.String()
}

func genC24Req(tp *simrt.Tape, id int, hostile bool) c24req {
	target := fmt.Sprintf("/q%d?x=%d", id, tp.Draw(9, "q"))
	body := c24body(tp, []int{0, 7, 120}[tp.Draw(3, "body.class")])
	hdr := fmt.Sprintf("Host: h.example\r\nX-Id: %d\r\n", id)
	if tp.Chance(1, 3, "extra_hdr") {
		hdr += "Accept: */*\r\nX-Multi: a\r\nX-Multi: b\r\nX-Ows:   padded value \t\r\n"
	}
	shape := 0
	if hostile {
		shape = 1 + tp.Draw(16, "shape")
	} else {
		shape = -tp.Draw(7, "valid_shape")
	}
	w := func(format string, a ...interface{}) c24req {
		return c24req{wire: []byte(fmt.Sprintf(format, a...))}
	}
	var r c24req
	switch shape {
	case 0:
		r = w("GET %s HTTP/1.1\r\n%s\r\n", target, hdr)
		r.shape = "GET"
	case -1:
		r = w("POST %s HTTP/1.1\r\n%sContent-Length: %d\r\n\r\n%s", target, hdr, len(body), body)
		r.shape = "POST content-length"
	case -2:
		r = w("POST %s HTTP/1.1\r\n%sTransfer-Encoding: chunked\r\n\r\n%s", target, hdr, chunkedWire(tp, body, tp.Chance(1, 3, "trailer")))
		r.shape = "POST chunked"
	case -3:
		r = w("HEAD %s HTTP/1.1\r\n%s\r\n", target, hdr)
		r.shape = "HEAD"
	case -4:
		r = w("PUT %s HTTP/1.1\r\n%sContent-Length: %d\r\nContent-Length: %d\r\n\r\n%s", target, hdr, len(body), len(body), body)
		r.shape = "PUT duplicate identical content-length"
	case -5:
		// request framing does not depend on the method (RFC 7230 3.3): a GET, HEAD or
		// DELETE that declares a body has one
		m := []string{"GET", "HEAD", "DELETE", "OPTIONS", "PATCH"}[tp.Draw(5, "method")]
		r = w("%s %s HTTP/1.1\r\n%sContent-Length: %d\r\n\r\n%s", m, target, hdr, len(body), body)
		r.shape = m + " with content-length body"
	case -6:
		m := []string{"GET", "HEAD", "DELETE", "OPTIONS", "PATCH"}[tp.Draw(5, "method")]
		r = w("%s %s HTTP/1.1\r\n%sTransfer-Encoding: chunked\r\n\r\n%s", m, target, hdr, chunkedWire(tp, body, false))
		r.shape = m + " with chunked body"
	case 1:
		r = w("POST %s HTTP/1.1\r\n%sContent-Length: %d\r\nContent-Length: %d\r\n\r\n%s", target, hdr, len(body), len(body)+3, body)
		r.shape = "conflicting content-length headers"
	case 2:
		r = w("POST %s HTTP/1.1\r\n%sContent-Length: %d, %d\r\n\r\n%s", target, hdr, len(body), len(body)+1, body)
		r.shape = "conflicting content-length list"
	case 3:
		r = w("POST %s HTTP/1.1\r\n%sContent-Length : %d\r\n\r\n%s", target, hdr, len(body), body)
		r.shape = "space before colon (content-length)"
	case 4:
		r = w("POST %s HTTP/1.1\r\n%sTransfer-Encoding : chunked\r\n\r\n%s", target, hdr, chunkedWire(tp, body, false))
		r.shape = "space before colon (transfer-encoding)"
	case 5:
		r = w("POST %s HTTP/1.1\r\n%sTransfer-Encoding: gzip\r\n\r\n%s", target, hdr, body)
		r.shape = "transfer-encoding gzip only"
	case 6:
		r = w("POST %s HTTP/1.1\r\n%sTransfer-Encoding: chunked, gzip\r\n\r\n%s", target, hdr, chunkedWire(tp, body, false))
		r.shape = "transfer-encoding chunked not last"
	case 7:
		r = w("POST %s HTTP/1.1\r\n%sTransfer-Encoding: identity, chunked\r\nContent-Length: 0\r\n\r\n%s", target, hdr, chunkedWire(tp, body, false))
		r.shape = "transfer-encoding identity, chunked with content-length 0"
	case 8:
		r = w("POST %s HTTP/1.1\r\n%sTransfer-Encoding: xchunked\r\nContent-Length: %d\r\n\r\n%s", target, hdr, len(body), body)
		r.shape = "transfer-encoding xchunked with content-length"
	case 9:
		r = w("POST %s HTTP/1.1\r\n%sTransfer-Encoding: identity\r\nTransfer-Encoding: chunked\r\n\r\n%s", target, hdr, chunkedWire(tp, body, false))
		r.shape = "two transfer-encoding lines: identity then chunked"
	case 10:
		r = w("GET %s HTTP/1.1\r\n%sX Bad Name: 1\r\n\r\n", target, hdr)
		r.shape = "space inside field name"
	case 11:
		r = w("GET %s HTTP/1.1\r\n%sX(Bad): 1\r\n\r\n", target, hdr)
		r.shape = "delimiter in field name"
	case 12:
		r = w("GET %s HTTP/1.1\r\n%sX-N\x00ul: 1\r\n\r\n", target, hdr)
		r.shape = "NUL in field name"
	case 13:
		r = w("POST %s HTTP/1.1\r\n%sContent-Length: +%d\r\n\r\n%s", target, hdr, len(body), body)
		r.shape = "content-length with plus sign"
	case 14:
		r = w("POST %s HTTP/1.1\r\n%sContent-Length: 0x%x\r\n\r\n%s", target, hdr, len(body), body)
		r.shape = "content-length hexadecimal"
	case 15:
		r = w("POST %s HTTP/1.1\r\n%sContent-Length: %d\r\nTransfer-Encoding: chunked\r\n\r\n%s", target, hdr, len(body)+2, chunkedWire(tp, body, false))
		r.shape = "content-length and transfer-encoding chunked (TE overrides)"
	case 16:
		r = w("POST %s HTTP/1.1\r\n%sTransfer-Encoding: Chunked\r\n\r\n%s", target, hdr, chunkedWire(tp, body, false))
		r.shape = "transfer-encoding Chunked (case)"
	default:
		// (a line with an empty field name, ": v", is dropped by the MIME reader: it is neither
		// used nor forwarded, so it is not a reinterpretation and is not generated here)
		r = w("GET %s HTTP/1.1\r\n%s\r\n", target, hdr)
		r.shape = "GET"
	}
	return r
}

type bfeReq struct {
	method, target string
	fields         []string // lower(name)+": "+value, sorted
	body           []byte
}

func normFields(fs []href.Field) []string {
	var r []string
	for _, f := range fs {
		n := strings.ToLower(f.Name)
		if n == "content-length" || n == "transfer-encoding" || n == "host" {
			continue // framing fields are consumed / Host is moved by the parser
		}
		r = append(r, n+": "+f.Value)
	}
	sort.Strings(r)
	return r
}

// C24: every request BFE accepts on a byte stream has the boundaries, field
// names and body an RFC 7230 reference parser assigns; requests such a parser
// must reject are rejected, not reinterpreted. The stream reaches ReadRequest in
// seeded segments.
func runC24(s *simrt.Sim) {
	tp := s.Tape
	nofault := simrt.Mode() == "nofault"
	nreq := tp.Range(1, 4, "n_requests")
	var wire []byte
	var shapes []string
	for i := 0; i < nreq; i++ {
		r := genC24Req(tp, i, !nofault && tp.Chance(1, 2, "hostile"))
		wire = append(wire, r.wire...)
		shapes = append(shapes, r.shape)
	}
	seg := 0
	if !nofault {
		seg = []int{0, 2, 6}[tp.Draw(3, "seg")]
	}
	// reference: parse the stream request by request
	type refRes struct {
		m   *href.Message
		err error
	}
	var ref []refRes
	rest := wire
	for len(rest) > 0 {
		m, n, err := href.ParseRequest(rest)
		if err != nil {
			ref = append(ref, refRes{nil, err})
			break
		}
		ref = append(ref, refRes{m, nil})
		rest = rest[n:]
	}
	// BFE: the way conn.serve reads a connection
	src := simio.NewReader(s, wire, seg)
	br := bfe_bufio.NewReaderSize(src, []int{64, 4096}[tp.Draw(2, "bufio")])
	var got []bfeReq
	var gotErr error
	for i := 0; i < 8; i++ {
		req, err := ReadRequest(br, 8192)
		if err != nil {
			gotErr = err
			break
		}
		body, berr := ioutil.ReadAll(req.Body)
		req.Body.Close()
		if berr != nil {
			gotErr = fmt.Errorf("body: %v", berr)
			break
		}
		var fs []href.Field
		for _, k := range req.HeaderKeys {
			_ = k
		}
		for name, vals := range req.Header {
			for _, v := range vals {
				fs = append(fs, href.Field{Name: name, Value: v})
			}
		}
		got = append(got, bfeReq{req.Method, req.RequestURI, normFields(fs), body})
	}
	s.Checked(1)
	s.Note("op", fmt.Sprintf("shapes=%v seg=%d -> ref %d requests (last err %v), bfe %d requests (err %v)", shapes, seg, len(ref), func() error {
		if len(ref) == 0 {
			return nil
		}
		return ref[len(ref)-1].err
	}(), len(got), gotErr))
	s.Sample = map[string]interface{}{"shapes": shapes, "seg": seg, "bytes": len(wire)}
	for i, g := range got {
		if i >= len(ref) {
			s.FailK("C24.boundaries", "extra-request-accepted", "BFE accepted %d requests, the reference finds %d in the stream; extra: %s %s; shapes %v", len(got), len(ref), g.method, g.target, shapes)
			return
		}
		if ref[i].err != nil {
			if ref[i].err == href.ErrIncomplete {
				s.FailK("C24.boundaries", "incomplete-request-accepted", "request #%d is incomplete in the stream but BFE accepted %s %s (body %d bytes); shapes %v", i, g.method, g.target, len(g.body), shapes)
				return
			}
			s.FailK("C24.reject", "must-reject-accepted:"+shapes[minInt(i, len(shapes)-1)], "request #%d (%s) must be rejected (%v) but BFE accepted it as %s %s with a %d-byte body", i, shapes[minInt(i, len(shapes)-1)], ref[i].err, g.method, g.target, len(g.body))
			return
		}
		m := ref[i].m
		if g.method != m.Method || g.target != m.Target {
			s.FailK("C24.boundaries", "request-line-differs", "request #%d: BFE read %s %s, the reference %s %s (framing out of step); shapes %v", i, g.method, g.target, m.Method, m.Target, shapes)
			return
		}
		if !bytes.Equal(g.body, m.Body) {
			s.FailK("C24.body", "body-differs:"+shapes[minInt(i, len(shapes)-1)], "request #%d (%s): BFE body %d bytes, reference %d bytes", i, shapes[minInt(i, len(shapes)-1)], len(g.body), len(m.Body))
			return
		}
		rf := normFields(m.Fields)
		if strings.Join(rf, "\n") != strings.Join(g.fields, "\n") {
			s.FailK("C24.fields", "fields-differ", "request #%d: BFE fields %q, reference %q", i, g.fields, rf)
			return
		}
	}
	// everything the reference accepts may also be refused by BFE (stricter is fine), but a
	// clean stream of valid requests must be read completely
	allValid := true
	for _, r := range ref {
		if r.err != nil {
			allValid = false
		}
	}
	if allValid && nofault && (len(got) != len(ref) || (gotErr != io.EOF && gotErr != io.ErrUnexpectedEOF && gotErr != nil && !strings.Contains(gotErr.Error(), "EOF"))) {
		s.FailK("C24.valid", "valid-stream-not-read", "a stream of %d valid requests (%v) was read as %d requests, err=%v", len(ref), shapes, len(got), gotErr)
		return
	}
	if len(got) == len(ref) && allValid {
		s.Probe("stream_fully_agreed")
	}
	if !allValid {
		s.Probe("hostile_stream")
	}
}
