//go:build verif
// +build verif

package bfe_http2

import (
	"bytes"
	"fmt"
	"strings"
	"time"

	http "github.com/bfenetworks/bfe/bfe_http"
	xh2 "golang.org/x/net/http2"
	xhpack "golang.org/x/net/http2/hpack"

	"verif/simrt"
	"verif/simrt/href"
)

// C25, HTTP/2 leg: whatever an HTTP/2 client puts into names, values and pseudo-headers, the bytes
// Request.Write produces for the request the server accepted are exactly one well-formed HTTP/1.1
// request with that method, target, fields and body - or the request never reaches a handler.

type c25req struct {
	id      uint32
	method  string
	path    string
	auth    string
	fields  []xhpack.HeaderField
	body    []byte
	hostile string
	started bool
	wire    []byte
	werr    error
}

var c25hostileValues = []string{"a\r\nX-Injected: 1", "a\nb", "a\rb", "nul\x00byte", "tab\tinside", "high\xffbyte", "del\x7f", "ctl\x01", "  padded  ", "", "a,b;c=d", strings.Repeat("v", 300)}
var c25hostileNames = []string{"x bad", "x:colon", "x\x00nul", "X-Upper", "x\r\nevil", "x(paren)", "", "x-ok-name", "x-ok-2"}

func runC25h2(s *simrt.Sim) {
	initCounters()
	tp := s.Tape
	faults := simrt.Mode() != "nofault"
	s.SetSticky([]int{2, 4, 10}[tp.Draw(3, "sched.strategy")])
	s.SetSelectOrder(tp.Draw(3, "selectorder"))
	s.SetSelectYield(tp.Chance(1, 2, "selectyield"))
	e := newH2(s, "C25")
	if faults {
		e.net.Seg = []int{0, 3}[tp.Draw(2, "net.seg")]
	}
	p0 := h2Panics()
	reqs := map[string]*c25req{}
	e.customHandler = func(w http.ResponseWriter, r *http.Request) {
		q := reqs[r.Header.Get("X-Verif-Id")]
		if q == nil {
			// the id field itself may have been mangled: find by path prefix
			for _, c := range reqs {
				if strings.HasPrefix(r.RequestURI, fmt.Sprintf("/c%d", c.id)) || strings.HasPrefix(r.URL.Path, fmt.Sprintf("/c%d", c.id)) {
					q = c
				}
			}
		}
		if q == nil {
			s.FailK("C25.injected", "request-nobody-sent", "the handler was given a request no client stream corresponds to: %s %q host %q", r.Method, r.RequestURI, r.Host)
			return
		}
		q.started = true
		// what the reverse proxy does with an accepted request: serialise it for the backend
		var buf bytes.Buffer
		r.RequestURI = ""
		q.werr = r.Write(&buf)
		q.wire = buf.Bytes()
		w.WriteHeader(204)
	}
	e.start(&Server{}, nil)
	simrt.WaitUntil(func() bool { return e.gotSrvSettings || e.readerDone })
	n := tp.Range(1, 4, "n_streams")
	var list []*c25req
	for i := 0; i < n; i++ {
		id := uint32(1 + 2*i)
		q := &c25req{id: id, method: []string{"GET", "POST", "PUT", "DELETE"}[tp.Draw(4, "method")], auth: "h.example"}
		q.path = fmt.Sprintf("/c%d/x?q=%d", id, tp.Draw(9, "q"))
		if q.method == "POST" || q.method == "PUT" {
			q.body = patterned(0, tp.Draw(2000, "body"), byte(id))
		}
		q.fields = []xhpack.HeaderField{{Name: "x-verif-id", Value: fmt.Sprint(id)}, {Name: "accept", Value: "*/*"}}
		if faults || tp.Chance(1, 2, "hostile") {
			switch tp.Draw(5, "hostile.where") {
			case 0:
				v := c25hostileValues[tp.Draw(len(c25hostileValues), "hostile.value")]
				q.fields = append(q.fields, xhpack.HeaderField{Name: "x-probe", Value: v})
				q.hostile = fmt.Sprintf("value %q", v)
			case 1:
				nm := c25hostileNames[tp.Draw(len(c25hostileNames), "hostile.name")]
				q.fields = append(q.fields, xhpack.HeaderField{Name: nm, Value: "1"})
				q.hostile = fmt.Sprintf("name %q", nm)
			case 2:
				q.method = []string{"GET /admin HTTP/1.1\r\nHost: evil\r\n\r\nGET", "G ET", "GET\t", "get", "M\x00", "M\xffX", "GET\t/admin"}[tp.Draw(7, "hostile.method")]
				q.hostile = fmt.Sprintf(":method %q", q.method)
			case 3:
				q.auth = []string{"h.example\r\nX-Injected: 1", "h example", "h.example:80", "h.example\x00", "[::1]:443"}[tp.Draw(5, "hostile.authority")]
				q.hostile = fmt.Sprintf(":authority %q", q.auth)
			case 4:
				q.path = fmt.Sprintf("/c%d", id) + []string{"/a b", "/a\r\nX-Injected: 1", "/a\x00", "/%0d%0aX: 1", "/é", "/a#frag"}[tp.Draw(6, "hostile.path")]
				q.hostile = fmt.Sprintf(":path %q", q.path)
			}
			s.Probe("c25_hostile_request")
		}
		reqs[fmt.Sprint(id)] = q
		list = append(list, q)
		fs := []xhpack.HeaderField{{Name: ":method", Value: q.method}, {Name: ":scheme", Value: "https"}, {Name: ":authority", Value: q.auth}, {Name: ":path", Value: q.path}}
		fs = append(fs, q.fields...)
		e.openStream(id, fs, len(q.body) == 0)
		if len(q.body) > 0 {
			e.writeData(id, q.body, 0, true)
		}
	}
	// wait until every stream is answered, reset, or the connection is gone
	t0 := s.Now()
	for s.Now()-t0 < 10*time.Second {
		all := true
		for _, q := range list {
			if !e.streamOver(q.id) {
				all = false
			}
		}
		if all {
			break
		}
		simrt.Sleep(20 * time.Millisecond)
	}
	e.finish(20 * time.Millisecond)
	if s.Failed() {
		return
	}
	if n := h2Panics() - p0; n > 0 {
		s.FailK("C25.panic", "server-panic", "%d panic(s) recovered inside the HTTP/2 server", n)
		return
	}
	for _, q := range list {
		s.Checked(1)
		if !q.started {
			if q.hostile == "" && e.goAway() == nil && e.rstOf(q.id) == nil && len(list) == 1 {
				s.FailK("C25.accept", "plain-request-not-served", "stream %d: an ordinary request never reached the handler; frames %s", q.id, e.tail(6))
				return
			}
			continue // refused: nothing is written to a backend
		}
		if q.werr != nil {
			continue // Request.Write itself refused: nothing complete reaches a backend
		}
		m, used, err := href.ParseRequest(q.wire)
		if err != nil {
			s.FailK("C25.wellformed", "backend-bytes-malformed", "stream %d (%s): Request.Write produced bytes a strict parser rejects (%v): %q", q.id, q.hostile, err, clipB(q.wire, 300))
			return
		}
		if used != len(q.wire) {
			s.FailK("C25.injected", "second-message-in-backend-bytes", "stream %d (%s): %d bytes follow the request in what is written to the backend: %q", q.id, q.hostile, len(q.wire)-used, clipB(q.wire[used:], 200))
			return
		}
		if m.Method != q.method || (m.Target != q.path && unescape(m.Target) != unescape(q.path)) {
			s.FailK("C25.line", "request-line-altered", "stream %d (%s): client sent %q %q, the backend would receive %q %q", q.id, q.hostile, q.method, q.path, m.Method, m.Target)
			return
		}
		if !bytes.Equal(m.Body, q.body) {
			s.FailK("C25.body", "body-altered", "stream %d: client body %d bytes, backend body %d bytes", q.id, len(q.body), len(m.Body))
			return
		}
		sent := map[string][]string{}
		for _, f := range q.fields {
			sent[strings.ToLower(f.Name)] = append(sent[strings.ToLower(f.Name)], strings.Trim(f.Value, " \t"))
		}
		for _, f := range m.Fields {
			k := strings.ToLower(f.Name)
			if k == "host" {
				if f.Value != q.auth {
					s.FailK("C25.fields", "host-altered", "stream %d (%s): :authority %q became Host %q", q.id, q.hostile, q.auth, f.Value)
					return
				}
				continue
			}
			if k == "content-length" || k == "transfer-encoding" || k == "user-agent" && len(sent[k]) == 0 {
				continue
			}
			ok := false
			for _, v := range sent[k] {
				if v == f.Value {
					ok = true
				}
			}
			if !ok {
				s.FailK("C25.fields", "field-not-sent-by-client", "stream %d (%s): the backend would receive %s: %q which the client did not send", q.id, q.hostile, f.Name, clipB([]byte(f.Value), 80))
				return
			}
		}
		s.Probe("c25_h2_forwarded_checked")
	}
}

func clipB(b []byte, n int) []byte {
	if len(b) > n {
		return b[:n]
	}
	return b
}

var _ = xh2.FrameData

// unescape: percent-decoding, so that a target BFE only re-encoded (a space written as %20) compares equal
func unescape(t string) string {
	var b []byte
	for i := 0; i < len(t); i++ {
		if t[i] == '%' && i+2 < len(t) {
			var v byte
			ok := true
			for _, c := range []byte{t[i+1], t[i+2]} {
				switch {
				case c >= '0' && c <= '9':
					v = v<<4 | (c - '0')
				case c >= 'a' && c <= 'f':
					v = v<<4 | (c - 'a' + 10)
				case c >= 'A' && c <= 'F':
					v = v<<4 | (c - 'A' + 10)
				default:
					ok = false
				}
			}
			if ok {
				b = append(b, v)
				i += 2
				continue
			}
		}
		b = append(b, t[i])
	}
	return string(b)
}
