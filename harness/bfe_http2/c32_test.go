//go:build verif
// +build verif

package bfe_http2

import (
	"bytes"
	"fmt"
	"io"
	"reflect"

	xh2 "golang.org/x/net/http2"

	"verif/simrt"
	"verif/simrt/simio"
)

// C32: the framer on a byte stream that arrives in seeded segments. Part one: every frame the
// framer writes (seeded types, flags, stream ids, payloads, padding, priority) is read back with the
// same fields, by bfe's framer and by golang.org/x/net's. Part two: damaged, crafted and raw streams:
// ReadFrame never panics, and every frame-level rule of RFC 7540 that the reference framer enforces
// (stream-0 restrictions, padding bounds, SETTINGS length, CONTINUATION sequencing, frame size) is
// enforced at the same frame.

type fsum struct {
	Type   uint8
	Flags  uint8
	Stream uint32
	Len    uint32
	Body   string // type-specific fields, rendered
}

func sumBfe(f Frame) fsum {
	h := f.Header()
	s := fsum{Type: uint8(h.Type), Flags: uint8(h.Flags), Stream: h.StreamID, Len: h.Length}
	switch f := f.(type) {
	case *DataFrame:
		s.Body = fmt.Sprintf("data=%x", f.Data())
	case *HeadersFrame:
		s.Body = fmt.Sprintf("frag=%x prio=%v", f.HeaderBlockFragment(), prioStr(f.HasPriority(), f.Priority.StreamDep, f.Priority.Exclusive, f.Priority.Weight))
	case *PriorityFrame:
		s.Body = prioStr(true, f.StreamDep, f.Exclusive, f.Weight)
	case *RSTStreamFrame:
		s.Body = fmt.Sprintf("code=%d", uint32(f.ErrCode))
	case *SettingsFrame:
		f.ForeachSetting(func(st Setting) error { s.Body += fmt.Sprintf("%d=%d;", uint16(st.ID), st.Val); return nil })
	case *PingFrame:
		s.Body = fmt.Sprintf("%x", f.Data)
	case *GoAwayFrame:
		s.Body = fmt.Sprintf("last=%d code=%d debug=%x", f.LastStreamID, uint32(f.ErrCode), f.DebugData())
	case *WindowUpdateFrame:
		s.Body = fmt.Sprintf("incr=%d", f.Increment)
	case *ContinuationFrame:
		s.Body = fmt.Sprintf("frag=%x", f.HeaderBlockFragment())
	case *PushPromiseFrame:
		s.Body = fmt.Sprintf("promise=%d frag=%x", f.PromiseID, f.HeaderBlockFragment())
	}
	return s
}

func sumX(f xh2.Frame) fsum {
	h := f.Header()
	s := fsum{Type: uint8(h.Type), Flags: uint8(h.Flags), Stream: h.StreamID, Len: h.Length}
	switch f := f.(type) {
	case *xh2.DataFrame:
		s.Body = fmt.Sprintf("data=%x", f.Data())
	case *xh2.HeadersFrame:
		s.Body = fmt.Sprintf("frag=%x prio=%v", f.HeaderBlockFragment(), prioStr(f.HasPriority(), f.Priority.StreamDep, f.Priority.Exclusive, f.Priority.Weight))
	case *xh2.PriorityFrame:
		s.Body = prioStr(true, f.StreamDep, f.Exclusive, f.Weight)
	case *xh2.RSTStreamFrame:
		s.Body = fmt.Sprintf("code=%d", uint32(f.ErrCode))
	case *xh2.SettingsFrame:
		f.ForeachSetting(func(st xh2.Setting) error { s.Body += fmt.Sprintf("%d=%d;", uint16(st.ID), st.Val); return nil })
	case *xh2.PingFrame:
		s.Body = fmt.Sprintf("%x", f.Data)
	case *xh2.GoAwayFrame:
		s.Body = fmt.Sprintf("last=%d code=%d debug=%x", f.LastStreamID, uint32(f.ErrCode), f.DebugData())
	case *xh2.WindowUpdateFrame:
		s.Body = fmt.Sprintf("incr=%d", f.Increment)
	case *xh2.ContinuationFrame:
		s.Body = fmt.Sprintf("frag=%x", f.HeaderBlockFragment())
	case *xh2.PushPromiseFrame:
		s.Body = fmt.Sprintf("promise=%d frag=%x", f.PromiseID, f.HeaderBlockFragment())
	}
	return s
}

func prioStr(has bool, dep uint32, excl bool, w uint8) string {
	if !has {
		return "-"
	}
	return fmt.Sprintf("dep=%d excl=%v w=%d", dep, excl, w)
}

func rnd(tp *simrt.Tape, n int, label string) []byte {
	b := make([]byte, n)
	for i := range b {
		b[i] = byte(tp.Draw(256, label))
	}
	return b
}

// genFrames writes 1-8 seeded frames with bfe's framer and returns what was written.
func genFrames(tp *simrt.Tape, w *Framer) []fsum {
	var want []fsum
	n := tp.Range(1, 8, "n_frames")
	inHeaders := uint32(0)
	for i := 0; i < n; i++ {
		id := uint32(1 + tp.Draw(9, "stream"))
		if inHeaders != 0 {
			frag := rnd(tp, tp.Draw(20, "frag.len"), "frag")
			end := tp.Chance(1, 2, "cont.end")
			w.WriteContinuation(inHeaders, end, frag)
			fl := uint8(0)
			if end {
				fl = uint8(FlagContinuationEndHeaders)
			}
			want = append(want, fsum{uint8(FrameContinuation), fl, inHeaders, uint32(len(frag)), fmt.Sprintf("frag=%x", frag)})
			if end {
				inHeaders = 0
			}
			continue
		}
		switch tp.Draw(8, "frame.type") {
		case 0:
			data := rnd(tp, []int{0, 1, 20, 300}[tp.Draw(4, "data.class")], "data")
			var pad []byte
			if tp.Chance(1, 2, "data.padded") {
				pad = make([]byte, []int{0, 1, 7, 255}[tp.Draw(4, "data.pad")])
			}
			end := tp.Chance(1, 2, "data.end")
			w.WriteDataPadded(id, end, data, pad)
			fl, l := uint8(0), len(data)
			if end {
				fl |= uint8(FlagDataEndStream)
			}
			if pad != nil {
				fl |= uint8(FlagDataPadded)
				l += 1 + len(pad)
			}
			want = append(want, fsum{uint8(FrameData), fl, id, uint32(l), fmt.Sprintf("data=%x", data)})
		case 1:
			p := HeadersFrameParam{StreamID: id, BlockFragment: rnd(tp, 1+tp.Draw(40, "frag.len"), "frag"), EndStream: tp.Chance(1, 2, "h.endstream"), EndHeaders: tp.Chance(2, 3, "h.endheaders")}
			if tp.Chance(1, 2, "h.padded") {
				p.PadLength = uint8([]int{0, 1, 9, 255}[tp.Draw(4, "h.pad")])
			}
			hasPrio := tp.Chance(1, 2, "h.prio")
			if hasPrio {
				p.Priority = PriorityParam{StreamDep: uint32(tp.Draw(12, "prio.dep")), Exclusive: tp.Chance(1, 2, "prio.excl"), Weight: uint8(tp.Draw(256, "prio.w"))}
				if p.Priority.StreamDep == 0 && !p.Priority.Exclusive && p.Priority.Weight == 0 {
					p.Priority.Weight = 1 // an all-zero PriorityParam means "none" to the writer
				}
			}
			if err := w.WriteHeaders(p); err != nil {
				continue // the writer refuses these parameters (e.g. a dependency on stream 0): nothing was written
			}
			fl, l := uint8(0), len(p.BlockFragment)
			if p.EndStream {
				fl |= uint8(FlagHeadersEndStream)
			}
			if p.EndHeaders {
				fl |= uint8(FlagHeadersEndHeaders)
			}
			if p.PadLength != 0 {
				fl |= uint8(FlagHeadersPadded)
				l += 1 + int(p.PadLength)
			}
			if hasPrio {
				fl |= uint8(FlagHeadersPriority)
				l += 5
			}
			want = append(want, fsum{uint8(FrameHeaders), fl, id, uint32(l), fmt.Sprintf("frag=%x prio=%v", p.BlockFragment, prioStr(hasPrio, p.Priority.StreamDep, p.Priority.Exclusive, p.Priority.Weight))})
			if !p.EndHeaders {
				inHeaders = id
			}
		case 2:
			pp := PriorityParam{StreamDep: uint32(tp.Draw(12, "prio.dep")), Exclusive: tp.Chance(1, 2, "prio.excl"), Weight: uint8(tp.Draw(256, "prio.w"))}
			if err := w.WritePriority(id, pp); err != nil {
				continue
			}
			want = append(want, fsum{uint8(FramePriority), 0, id, 5, prioStr(true, pp.StreamDep, pp.Exclusive, pp.Weight)})
		case 3:
			code := ErrCode(tp.Draw(14, "rst.code"))
			w.WriteRSTStream(id, code)
			want = append(want, fsum{uint8(FrameRSTStream), 0, id, 4, fmt.Sprintf("code=%d", uint32(code))})
		case 4:
			if tp.Chance(1, 4, "settings.ack") {
				w.WriteSettingsAck()
				want = append(want, fsum{uint8(FrameSettings), uint8(FlagSettingsAck), 0, 0, ""})
				break
			}
			var ss []Setting
			body := ""
			for k := tp.Draw(4, "settings.n"); k > 0; k-- {
				st := Setting{ID: SettingID(1 + tp.Draw(6, "settings.id")), Val: uint32([]int{0, 1, 100, 16384, 65535, 1 << 20}[tp.Draw(6, "settings.val")])}
				ss = append(ss, st)
				body += fmt.Sprintf("%d=%d;", uint16(st.ID), st.Val)
			}
			w.WriteSettings(ss...)
			want = append(want, fsum{uint8(FrameSettings), 0, 0, uint32(6 * len(ss)), body})
		case 5:
			var d [8]byte
			copy(d[:], rnd(tp, 8, "ping"))
			ack := tp.Chance(1, 2, "ping.ack")
			w.WritePing(ack, d)
			fl := uint8(0)
			if ack {
				fl = uint8(FlagPingAck)
			}
			want = append(want, fsum{uint8(FramePing), fl, 0, 8, fmt.Sprintf("%x", d)})
		case 6:
			dbg := rnd(tp, tp.Draw(12, "goaway.debug"), "debug")
			last, code := uint32(tp.Draw(100, "goaway.last")), ErrCode(tp.Draw(14, "goaway.code"))
			w.WriteGoAway(last, code, dbg)
			want = append(want, fsum{uint8(FrameGoAway), 0, 0, uint32(8 + len(dbg)), fmt.Sprintf("last=%d code=%d debug=%x", last, uint32(code), dbg)})
		case 7:
			sid := uint32(tp.Draw(6, "wu.stream"))
			incr := uint32(1 + tp.Draw(1<<20, "wu.incr"))
			if err := w.WriteWindowUpdate(sid, incr); err != nil {
				continue
			}
			want = append(want, fsum{uint8(FrameWindowUpdate), 0, sid, 4, fmt.Sprintf("incr=%d", incr)})
		}
	}
	if inHeaders != 0 {
		w.WriteContinuation(inHeaders, true, nil)
		want = append(want, fsum{uint8(FrameContinuation), uint8(FlagContinuationEndHeaders), inHeaders, 0, "frag="})
	}
	return want
}

func runC32(s *simrt.Sim) {
	tp := s.Tape
	seg := 0
	if simrt.Mode() != "nofault" {
		seg = []int{2, 4, 16}[tp.Draw(3, "io.seg_class")]
	}
	var wire bytes.Buffer
	w := NewFramer(&wire, nil)
	want := genFrames(tp, w)
	stream := append([]byte(nil), wire.Bytes()...)
	s.Note("op", fmt.Sprintf("%d frames, %d bytes: %x", len(want), len(stream), clipBytes(stream, 40)))
	damaged := tp.Chance(1, 2, "damage")
	if damaged {
		switch tp.Draw(3, "damage.how") {
		case 0:
			for k := 1 + tp.Draw(3, "damage.n"); k > 0 && len(stream) > 0; k-- {
				i := tp.Draw(len(stream), "damage.at")
				switch tp.Draw(4, "damage.kind") {
				case 0:
					stream[i] ^= 1 << uint(tp.Draw(8, "damage.bit"))
				case 1:
					stream = stream[:i]
				case 2:
					stream = append(stream[:i], append([]byte{byte(tp.Draw(256, "damage.byte"))}, stream[i:]...)...)
				case 3:
					stream[i] = 0xff
				}
			}
			s.Fault("stream_damaged")
		case 1:
			stream = append(stream, craftFrame(tp)...)
			s.Fault("crafted_frame")
		case 2:
			stream = rnd(tp, tp.Draw(60, "raw.len"), "raw")
			s.Fault("raw_stream")
		}
		s.Note("op", fmt.Sprintf("damaged stream: %x", clipBytes(stream, 60)))
	}
	// read with bfe's framer from a segmenting reader
	rd := simio.NewReader(s, stream, seg)
	rd.ZeroReads = false
	fr := NewFramer(nil, rd)
	var got []fsum
	var gerr error
	func() {
		defer func() {
			if r := recover(); r != nil {
				gerr = fmt.Errorf("PANIC: %v", r)
			}
		}()
		for {
			f, err := fr.ReadFrame()
			if err != nil {
				gerr = err
				return
			}
			got = append(got, sumBfe(f))
		}
	}()
	// the reference reads the same bytes in one piece
	xr := xh2.NewFramer(nil, bytes.NewReader(stream))
	var ref []fsum
	var rerr error
	for {
		f, err := xr.ReadFrame()
		if err != nil {
			rerr = err
			break
		}
		ref = append(ref, sumX(f))
	}
	s.Checked(1)
	if gerr != nil && len(gerr.Error()) > 6 && gerr.Error()[:6] == "PANIC:" {
		s.FailK("C32.panic", "readframe-panics", "stream %x: %v", clipBytes(stream, 80), gerr)
		return
	}
	if !damaged {
		if gerr != io.EOF || len(got) != len(want) {
			s.FailK("C32.roundtrip", "written-frames-not-read-back", "%d frames written, %d read back, then %v; stream %x", len(want), len(got), gerr, clipBytes(stream, 80))
			return
		}
		for i := range want {
			if !reflect.DeepEqual(got[i], want[i]) {
				s.FailK("C32.roundtrip", "frame-fields-differ", "frame %d written as %+v, read back as %+v", i, want[i], got[i])
				return
			}
		}
		if rerr != io.EOF || len(ref) != len(want) {
			s.FailK("C32.reference", "reference-rejects-written-frames", "golang.org/x/net reads %d of %d written frames, then %v; stream %x", len(ref), len(want), rerr, clipBytes(stream, 80))
			return
		}
		for i := range want {
			if !reflect.DeepEqual(ref[i], want[i]) {
				s.FailK("C32.reference", "reference-reads-other-fields", "frame %d written as %+v, the reference reads %+v", i, want[i], ref[i])
				return
			}
		}
		s.Probe("h2_frames_roundtrip")
		return
	}
	// damaged: frames accepted by both must agree; where the reference refuses frame k for a protocol
	// reason, bfe must have refused by then
	n := len(got)
	if len(ref) < n {
		n = len(ref)
	}
	for i := 0; i < n; i++ {
		if !reflect.DeepEqual(got[i], ref[i]) {
			s.FailK("C32.fields", "frame-differs-from-reference", "frame %d: bfe reads %+v, the reference %+v; stream %x", i, got[i], ref[i], clipBytes(stream, 80))
			return
		}
	}
	if isProtoErr(rerr) && len(got) > len(ref) {
		s.FailK("C32.rules", "malformed-frame-accepted", "frame %d: the reference framer refuses it (%v), bfe's framer returned it as %+v; stream %x", len(ref), rerr, got[len(ref)], clipBytes(stream, 80))
		return
	}
	s.Probe("h2_damaged_stream_checked")
	if isProtoErr(rerr) {
		s.Probe("h2_rule_violation_checked")
	}
}

func isProtoErr(err error) bool {
	switch err.(type) {
	case xh2.ConnectionError, xh2.StreamError:
		return true
	}
	return err == xh2.ErrFrameTooLarge
}

func clipBytes(b []byte, n int) []byte {
	if len(b) > n {
		return b[:n]
	}
	return b
}

// craftFrame: one frame that breaks a frame-level rule.
func craftFrame(tp *simrt.Tape) []byte {
	hdr := func(l int, t FrameType, fl uint8, id uint32, payload []byte) []byte {
		b := []byte{byte(l >> 16), byte(l >> 8), byte(l), byte(t), fl, byte(id >> 24), byte(id >> 16), byte(id >> 8), byte(id)}
		return append(b, payload...)
	}
	switch tp.Draw(14, "craft.kind") {
	case 0:
		return hdr(3, FrameData, 0, 0, []byte("abc")) // DATA on stream 0
	case 1:
		return hdr(4, FrameData, uint8(FlagDataPadded), 1, []byte{9, 'a', 'b', 'c'}) // pad length beyond the payload
	case 2:
		return hdr(6, FrameSettings, 0, 1, make([]byte, 6)) // SETTINGS on a stream
	case 3:
		return hdr(5, FrameSettings, 0, 0, make([]byte, 5)) // SETTINGS length not a multiple of 6
	case 4:
		return hdr(6, FrameSettings, uint8(FlagSettingsAck), 0, make([]byte, 6)) // SETTINGS ack with payload
	case 5:
		return hdr(7, FramePing, 0, 0, make([]byte, 7)) // PING of 7 bytes
	case 6:
		return hdr(8, FramePing, 0, 3, make([]byte, 8)) // PING on a stream
	case 7:
		return hdr(4, FrameContinuation, 0, 1, []byte("abcd")) // CONTINUATION without HEADERS
	case 8:
		return append(hdr(2, FrameHeaders, 0, 1, []byte{0x82, 0x84}), hdr(1, FrameData, 0, 1, []byte("x"))...) // HEADERS without END_HEADERS followed by DATA
	case 9:
		return hdr(3, FrameRSTStream, 0, 1, []byte{0, 0, 0}) // RST_STREAM of 3 bytes
	case 10:
		return hdr(4, FrameWindowUpdate, 0, 1, []byte{0, 0, 0, 0}) // increment 0
	case 11:
		return hdr(4, FramePriority, 0, 1, []byte{0, 0, 0, 1}) // PRIORITY of 4 bytes
	case 12:
		return hdr(7, FrameHeaders, uint8(FlagHeadersPadded|FlagHeadersPriority), 1, []byte{4, 0, 0, 0, 3, 16, 0x82}) // padding runs into the priority fields
	default:
		return hdr(1<<24-1, FrameData, 0, 1, []byte("short")) // a length far above the maximum frame size
	}
}
