//go:build verif
// +build verif

package bfe_http2

import (
	"bytes"
	"fmt"
	"io"
	"sort"
	"strings"
	"testing"
	"time"

	xh2 "golang.org/x/net/http2"
	xhpack "golang.org/x/net/http2/hpack"

	http "github.com/bfenetworks/bfe/bfe_http"
	"github.com/bfenetworks/bfe/bfe_http2/hpack"
	"verif/simrt"
	"verif/simrt/simnet"
	"verif/simrt/simsync"
)

var _ = hpack.NewDecoder

// Engine E: the real bfe_http2 server (ServeConn: serve loop, readFrames,
// writeFrames, handler goroutines, timers) on one simulated connection. The peer
// is a scripted client built on golang.org/x/net/http2's Framer and HPACK (the
// module bfe already depends on): an independent codec, so what the oracle sees
// is decoded by code that is not under test.

func TestSim(t *testing.T) {
	opt := simrt.Options{MaxSteps: 400000}
	simrt.Main(t, map[string]simrt.Prop{
		"C38":   {Run: runResp("C38"), Opt: opt},
		"C34":   {Run: runResp("C34"), Opt: opt},
		"C33":   {Run: runInflow, Opt: opt},
		"C34up": {Run: runInflowC34, Opt: opt},
		"C35":   {Run: runState("C35"), Opt: opt},
		"C36":   {Run: runState("C36"), Opt: opt},
		"C25h2": {Run: runC25h2, Opt: opt},
		"C32":   {Run: runC32},
		"C37":   {Run: runFlood, Opt: simrt.Options{MaxSteps: 3000000}},
	})
}

// rframe is one frame the client received, decoded.
type rframe struct {
	Seq       uint64
	Type      xh2.FrameType
	Flags     xh2.Flags
	Stream    uint32
	Len       int // payload length as on the wire (what flow control counts for DATA)
	Data      []byte
	Fields    []xhpack.HeaderField // a complete header block (HEADERS + CONTINUATIONs)
	EndStream bool
	Incr      uint32
	Code      xh2.ErrCode
	Last      uint32
	Settings  []xh2.Setting
	Ack       bool
}

func (f rframe) String() string {
	switch f.Type {
	case xh2.FrameData:
		return fmt.Sprintf("DATA s%d len=%d end=%v", f.Stream, f.Len, f.EndStream)
	case xh2.FrameHeaders:
		return fmt.Sprintf("HEADERS s%d %v end=%v", f.Stream, fieldsStr(f.Fields), f.EndStream)
	case xh2.FrameRSTStream:
		return fmt.Sprintf("RST_STREAM s%d %v", f.Stream, f.Code)
	case xh2.FrameGoAway:
		return fmt.Sprintf("GOAWAY last=%d %v", f.Last, f.Code)
	case xh2.FrameWindowUpdate:
		return fmt.Sprintf("WINDOW_UPDATE s%d +%d", f.Stream, f.Incr)
	case xh2.FrameSettings:
		return fmt.Sprintf("SETTINGS ack=%v %v", f.Ack, f.Settings)
	case xh2.FramePing:
		return fmt.Sprintf("PING ack=%v", f.Ack)
	}
	return fmt.Sprintf("%v s%d len=%d", f.Type, f.Stream, f.Len)
}

func fieldsStr(fs []xhpack.HeaderField) string {
	var b []string
	for _, f := range fs {
		v := f.Value
		if len(v) > 40 {
			v = v[:40] + "..."
		}
		b = append(b, f.Name+"="+v)
	}
	return "[" + strings.Join(b, " ") + "]"
}

// sentSettings: one SETTINGS frame the client sent and what it changes.
type sentSettings struct {
	initWin  int64 // -1: unchanged
	maxFrame int64
}

type h2eng struct {
	closeNotifyCh chan bool // closed = the server process begins a graceful shutdown (reload / exit)
	s             *simrt.Sim
	tp            *simrt.Tape
	focus         string
	net           *simnet.Net
	cli           *simnet.Conn
	srvc          *simnet.Conn
	sc            *serverConn

	wmu  simsync.Mutex // serialises client frame writes (script task + reader reactions)
	fr   *xh2.Framer
	henc *xhpack.Encoder
	hbuf bytes.Buffer
	hdec *xhpack.Decoder

	recv       []rframe
	perStream  map[uint32][]rframe // DATA / HEADERS / RST_STREAM per stream, in arrival order
	maxBody    int                 // cap for generated response bodies (small client windows make many frames)
	readErr    error
	readerDone bool
	stopRead   bool // the reader task stops consuming (flood / stall scenarios)

	// client-side view of what the server may send (C34)
	initWin                     int64 // stream window new streams start with (permissive)
	maxFrame                    int64
	connWin                     int64
	streamWin                   map[uint32]int64
	pendSettings                []sentSettings
	ackedInitWin, ackedMaxFrame int64
	sentInitWin                 int64 // the value of the client's latest SETTINGS_INITIAL_WINDOW_SIZE
	// client's window-update policy
	wuPolicy    int // 0 eager, 1 batched, 2 delayed, 3 manual
	wuBatch     int64
	owedStream  map[uint32]int64
	owedConn    int64
	ackSettings bool
	ackPing     bool

	// server-side windows as advertised to the client (C33)
	srvInitWin                                               int64
	srvConnWin                                               int64
	srvStreamWin                                             map[uint32]int64
	gotSrvSettings                                           bool
	connCap                                                  int64 // the connection receive window the server started with (C33)
	outq                                                     []func()
	resetDone                                                map[uint32]bool
	customHandler                                            func(w http.ResponseWriter, r *http.Request)
	syncSeen                                                 int
	queuePeak                                                int
	violationSent, sendersDone, holdAll, violationImpossible bool
	violationAt                                              time.Duration

	handlers map[uint32]*hplan // by stream id
	byPath   map[string]*hplan
	srvDone  bool
	panics0  int64
}

func newH2(s *simrt.Sim, focus string) *h2eng {
	e := &h2eng{s: s, tp: s.Tape, focus: focus, streamWin: map[uint32]int64{}, owedStream: map[uint32]int64{},
		srvStreamWin: map[uint32]int64{}, handlers: map[uint32]*hplan{}, byPath: map[string]*hplan{},
		initWin: 65535, maxFrame: 16384, ackedInitWin: 65535, ackedMaxFrame: 16384, sentInitWin: 65535, connWin: 65535, srvInitWin: 65535, srvConnWin: 65535, ackSettings: true, ackPing: true}
	e.net = simnet.New(s)
	return e
}

// start connects the pair, starts the server task and the client's reader task,
// and sends preface + the client's SETTINGS.
func (e *h2eng) start(srv *Server, settings []xh2.Setting) {
	e.cli, e.srvc = e.net.Pair("192.0.2.9:40000", "10.0.0.1:443")
	e.fr = xh2.NewFramer(e.cli, e.cli)
	e.fr.AllowIllegalWrites = true
	e.fr.AllowIllegalReads = true
	e.fr.SetMaxReadFrameSize(1 << 24)
	e.henc = xhpack.NewEncoder(&e.hbuf)
	e.hdec = xhpack.NewDecoder(4096, nil)
	testHookGetServerConn = func(sc *serverConn) { e.sc = sc }
	e.closeNotifyCh = make(chan bool)
	base := &http.Server{ReadTimeout: 10 * time.Minute, WriteTimeout: 10 * time.Minute, CloseNotifyCh: e.closeNotifyCh, GracefulShutdownTimeout: 10 * time.Minute}
	simrt.GoNamed("h2server", nil, func() {
		srv.ServeConn(e.srvc, &ServeConnOpts{BaseConfig: base, Handler: http.HandlerFunc(e.serveHTTP)})
		e.srvDone = true
	})
	e.cli.Write([]byte(xh2.ClientPreface))
	e.writeSettings(settings...)
	// no stream exists before the client's first SETTINGS: its values hold from the start
	// (the placeholder keeps the ACK count aligned)
	if n := len(e.pendSettings); n > 0 {
		if v := e.pendSettings[n-1].initWin; v >= 0 {
			e.ackedInitWin = v
		}
		if v := e.pendSettings[n-1].maxFrame; v >= 0 {
			e.ackedMaxFrame = v
		}
		e.pendSettings[n-1] = sentSettings{-1, -1}
		e.recomputeAllowance()
	}
	simrt.GoNamed("h2client.reader", nil, e.reader)
	simrt.GoNamed("h2client.writer", nil, e.writer)
}

func (e *h2eng) writeSettings(settings ...xh2.Setting) {
	ss := sentSettings{-1, -1}
	for _, st := range settings {
		switch st.ID {
		case xh2.SettingInitialWindowSize:
			ss.initWin = int64(st.Val)
		case xh2.SettingMaxFrameSize:
			ss.maxFrame = int64(st.Val)
		}
	}
	e.pendSettings = append(e.pendSettings, ss)
	if ss.initWin >= 0 {
		e.sentInitWin = ss.initWin
	}
	e.recomputeAllowance()
	e.wmu.Lock()
	e.fr.WriteSettings(settings...)
	e.wmu.Unlock()
}

// recomputeAllowance: what the server may assume is the largest of the last acknowledged value and
// every value still in flight (permissive where the RFC leaves a race; the server also coalesces
// SETTINGS acknowledgements, so an ACK is only taken to cover the oldest pending frame).
func (e *h2eng) recomputeAllowance() {
	iw, mf := e.ackedInitWin, e.ackedMaxFrame
	for _, p := range e.pendSettings {
		if p.initWin > iw {
			iw = p.initWin
		}
		if p.maxFrame > mf {
			mf = p.maxFrame
		}
	}
	if d := iw - e.initWin; d != 0 {
		for id := range e.streamWin {
			e.streamWin[id] += d
		}
		e.initWin = iw
	}
	e.maxFrame = mf
}

func (e *h2eng) settingsAcked() {
	if len(e.pendSettings) == 0 {
		return
	}
	ss := e.pendSettings[0]
	e.pendSettings = e.pendSettings[1:]
	if ss.initWin >= 0 {
		e.ackedInitWin = ss.initWin
	}
	if ss.maxFrame >= 0 {
		e.ackedMaxFrame = ss.maxFrame
	}
	e.recomputeAllowance()
}

// encode a header list with the client's HPACK encoder.
func (e *h2eng) encode(fields []xhpack.HeaderField) []byte {
	e.hbuf.Reset()
	for _, f := range fields {
		e.henc.WriteField(f)
	}
	return append([]byte(nil), e.hbuf.Bytes()...)
}

func reqFields(method, path string, extra ...xhpack.HeaderField) []xhpack.HeaderField {
	fs := []xhpack.HeaderField{{Name: ":method", Value: method}, {Name: ":scheme", Value: "https"}, {Name: ":authority", Value: "h.example"}, {Name: ":path", Value: path}}
	return append(fs, extra...)
}

// openStream sends HEADERS (one frame) for a new request.
func (e *h2eng) openStream(id uint32, fields []xhpack.HeaderField, endStream bool) error {
	blk := e.encode(fields)
	e.streamWin[id] = e.initWin
	e.srvStreamWin[id] = e.srvInitWin
	e.wmu.Lock()
	defer e.wmu.Unlock()
	e.s.Note("op", fmt.Sprintf("client HEADERS s%d end=%v %s", id, endStream, fieldsStr(fields)))
	return e.fr.WriteHeaders(xh2.HeadersFrameParam{StreamID: id, BlockFragment: blk, EndStream: endStream, EndHeaders: true})
}

func (e *h2eng) writeData(id uint32, data []byte, pad int, end bool) error {
	e.wmu.Lock()
	defer e.wmu.Unlock()
	return e.writeDataLocked(id, data, pad, end)
}

func (e *h2eng) writeDataLocked(id uint32, data []byte, pad int, end bool) error {
	e.s.Note("op", fmt.Sprintf("client DATA s%d len=%d pad=%d end=%v", id, len(data), pad, end))
	if pad > 0 {
		return e.fr.WriteDataPadded(id, end, data, make([]byte, pad-1))
	}
	return e.fr.WriteData(id, end, data)
}

func (e *h2eng) writeWindowUpdate(id uint32, n uint32) {
	if id == 0 {
		e.connWin += int64(n)
	} else if _, ok := e.streamWin[id]; ok {
		e.streamWin[id] += int64(n)
	}
	e.post(func() { e.fr.WriteWindowUpdate(id, n) })
}

// post hands a frame write to the client's writer task: the reader never blocks on the
// connection's write side (a client that did could deadlock with a server that is itself
// blocked writing to it).
func (e *h2eng) post(f func()) {
	e.outq = append(e.outq, f)
}

func (e *h2eng) writer() {
	for {
		simrt.WaitUntil(func() bool { return len(e.outq) > 0 || e.readerDone })
		if len(e.outq) == 0 {
			return
		}
		f := e.outq[0]
		e.outq = e.outq[1:]
		e.wmu.Lock()
		f()
		e.wmu.Unlock()
	}
}

// reader consumes server frames, records them and reacts as a well-behaved peer would.
func (e *h2eng) reader() {
	defer func() { e.readerDone = true }()
	var hdr *rframe
	var block []byte
	for {
		if e.stopRead {
			simrt.WaitUntil(func() bool { return !e.stopRead })
		}
		f, err := e.fr.ReadFrame()
		if err != nil {
			e.readErr = err
			e.s.Note("net", fmt.Sprintf("client read ends: %v", err))
			return
		}
		h := f.Header()
		r := rframe{Type: h.Type, Flags: h.Flags, Stream: h.StreamID, Len: int(h.Length)}
		switch f := f.(type) {
		case *xh2.DataFrame:
			r.Data = append([]byte(nil), f.Data()...)
			r.EndStream = f.StreamEnded()
		case *xh2.HeadersFrame:
			r.EndStream = f.StreamEnded()
			block = append([]byte(nil), f.HeaderBlockFragment()...)
			if !f.HeadersEnded() {
				hdr = &r
				continue
			}
			r.Fields, err = e.hdec.DecodeFull(block)
			if err != nil {
				e.readErr = fmt.Errorf("header block of stream %d does not decode: %v", h.StreamID, err)
				return
			}
		case *xh2.ContinuationFrame:
			if hdr == nil || hdr.Stream != h.StreamID {
				e.readErr = fmt.Errorf("CONTINUATION for stream %d without HEADERS", h.StreamID)
				return
			}
			block = append(block, f.HeaderBlockFragment()...)
			hdr.Len += int(h.Length)
			if !f.HeadersEnded() {
				continue
			}
			r = *hdr
			hdr = nil
			r.Fields, err = e.hdec.DecodeFull(block)
			if err != nil {
				e.readErr = fmt.Errorf("header block of stream %d does not decode: %v", h.StreamID, err)
				return
			}
		case *xh2.RSTStreamFrame:
			r.Code = f.ErrCode
		case *xh2.GoAwayFrame:
			r.Code, r.Last = f.ErrCode, f.LastStreamID
		case *xh2.WindowUpdateFrame:
			r.Incr = f.Increment
		case *xh2.SettingsFrame:
			r.Ack = f.IsAck()
			f.ForeachSetting(func(st xh2.Setting) error { r.Settings = append(r.Settings, st); return nil })
		case *xh2.PingFrame:
			r.Ack = f.IsAck()
			r.Data = append([]byte(nil), f.Data[:]...)
		}
		r.Seq = e.s.Note("recv", r.String())
		e.recv = append(e.recv, r)
		if (r.Type == xh2.FrameData || r.Type == xh2.FrameHeaders) && e.resetDone[r.Stream] {
			e.s.FailK("C34.afterreset", "frame-after-stream-reset", "%v arrived although the server had already processed the client's RST_STREAM for stream %d (a PING sent after the RST_STREAM was acknowledged before it)", r, r.Stream)
			return
		}
		if r.Type == xh2.FrameData || r.Type == xh2.FrameHeaders || r.Type == xh2.FrameRSTStream {
			if e.perStream == nil {
				e.perStream = map[uint32][]rframe{}
			}
			e.perStream[r.Stream] = append(e.perStream[r.Stream], r)
		}
		e.react(r)
		if e.s.Failed() {
			return
		}
	}
}

func (e *h2eng) react(r rframe) {
	switch r.Type {
	case xh2.FrameSettings:
		if r.Ack {
			e.settingsAcked()
			return
		}
		for _, st := range r.Settings {
			if st.ID == xh2.SettingInitialWindowSize {
				d := int64(st.Val) - e.srvInitWin
				e.srvInitWin = int64(st.Val)
				for id := range e.srvStreamWin {
					e.srvStreamWin[id] += d
				}
			}
		}
		e.gotSrvSettings = true
		if e.ackSettings {
			e.post(func() { e.fr.WriteSettingsAck() })
		}
	case xh2.FramePing:
		if r.Ack && len(r.Data) == 8 && string(r.Data[:4]) == "sync" {
			e.syncSeen = int(r.Data[4])<<24 | int(r.Data[5])<<16 | int(r.Data[6])<<8 | int(r.Data[7])
		}
		if r.Ack && len(r.Data) == 8 && string(r.Data[:4]) == "rst!" {
			// the server has processed everything the client sent before this PING, the RST_STREAM included
			id := uint32(r.Data[4])<<24 | uint32(r.Data[5])<<16 | uint32(r.Data[6])<<8 | uint32(r.Data[7])
			if e.resetDone == nil {
				e.resetDone = map[uint32]bool{}
			}
			e.resetDone[id] = true
		}
		if !r.Ack && e.ackPing {
			var d [8]byte
			copy(d[:], r.Data)
			e.post(func() { e.fr.WritePing(true, d) })
		}
	case xh2.FrameWindowUpdate:
		if r.Stream == 0 {
			e.srvConnWin += int64(r.Incr)
			if e.focus == "C33" && e.connCap > 0 && e.srvConnWin > e.connCap {
				e.s.FailK("C33.replenish", "connection-window-overcredited", "WINDOW_UPDATE +%d lifts the connection window to %d, above the %d it started with: more was given back than was consumed", r.Incr, e.srvConnWin, e.connCap)
			}
		} else {
			e.srvStreamWin[r.Stream] += int64(r.Incr)
			if _, mine := e.handlers[r.Stream]; e.focus == "C33" && mine && e.srvStreamWin[r.Stream] > e.srvInitWin {
				e.s.FailK("C33.replenish", "stream-window-overcredited", "WINDOW_UPDATE +%d lifts the window of stream %d to %d, above the initial %d: more was given back than was consumed", r.Incr, r.Stream, e.srvStreamWin[r.Stream], e.srvInitWin)
			}
		}
	case xh2.FrameData:
		e.onData(r)
	}
}

// onData: C34 accounting (the server may never exceed what the client allowed) and the window-update policy.
func (e *h2eng) onData(r rframe) {
	n := int64(r.Len)
	sw, known := e.streamWin[r.Stream]
	if !known {
		e.s.FailK(e.focus+".stream", "data-on-unknown-stream", "DATA on stream %d which the client never opened", r.Stream)
		return
	}
	if n > e.maxFrame {
		e.s.FailK("C34.framesize", "data-frame-above-max-frame-size", "DATA frame of %d bytes on stream %d; the client's SETTINGS_MAX_FRAME_SIZE is %d", n, r.Stream, e.maxFrame)
		return
	}
	if n > 0 && n > sw {
		e.s.FailK("C34.window", "data-exceeds-stream-window", "DATA frame of %d bytes on stream %d; the stream window the client has granted is %d", n, r.Stream, sw)
		return
	}
	if n > 0 && n > e.connWin {
		e.s.FailK("C34.window", "data-exceeds-connection-window", "DATA frame of %d bytes on stream %d; the connection window the client has granted is %d", n, r.Stream, e.connWin)
		return
	}
	e.s.Checked(1)
	e.streamWin[r.Stream] -= n
	e.connWin -= n
	e.owedStream[r.Stream] += n
	e.owedConn += n
	switch e.wuPolicy {
	case 0:
		e.grant(r.Stream, r.EndStream)
	case 1:
		if e.owedConn >= e.wuBatch || e.owedStream[r.Stream] >= e.wuBatch {
			e.grant(r.Stream, r.EndStream)
		}
	case 2:
		simrt.Sleep(time.Duration(1+e.tp.Draw(40, "wu.delay_ms")) * time.Millisecond)
		e.grant(r.Stream, r.EndStream)
	}
}

// grant returns what is owed on a stream (and the connection).
func (e *h2eng) grant(id uint32, ended bool) {
	if n := e.owedStream[id]; n > 0 && !ended {
		e.owedStream[id] = 0
		e.writeWindowUpdate(id, uint32(n))
	}
	if n := e.owedConn; n > 0 {
		e.owedConn = 0
		e.writeWindowUpdate(0, uint32(n))
	}
}

// resetStream: RST_STREAM(CANCEL) followed by a PING that serves as a barrier.
func (e *h2eng) resetStream(id uint32) {
	e.wmu.Lock()
	e.s.Note("op", fmt.Sprintf("client RST_STREAM s%d + PING barrier", id))
	e.fr.WriteRSTStream(id, xh2.ErrCodeCancel)
	e.fr.WritePing(false, [8]byte{'r', 's', 't', '!', byte(id >> 24), byte(id >> 16), byte(id >> 8), byte(id)})
	e.wmu.Unlock()
}

// ---- frames of one stream, in order -------------------------------------------

func (e *h2eng) framesOf(id uint32) []rframe { return e.perStream[id] }

func (e *h2eng) goAway() *rframe {
	for i := range e.recv {
		if e.recv[i].Type == xh2.FrameGoAway {
			return &e.recv[i]
		}
	}
	return nil
}

func (e *h2eng) rstOf(id uint32) *rframe {
	for i := range e.recv {
		if e.recv[i].Type == xh2.FrameRSTStream && e.recv[i].Stream == id {
			return &e.recv[i]
		}
	}
	return nil
}

func (e *h2eng) tail(n int) string {
	var b []string
	fs := e.recv
	if len(fs) > n {
		fs = fs[len(fs)-n:]
	}
	for _, f := range fs {
		b = append(b, f.String())
	}
	return strings.Join(b, " | ")
}

// ---- generated handlers -------------------------------------------------------

type hwrite struct {
	N       int
	Flush   bool
	SleepMs int
}

type hplan struct {
	ID                 uint32
	Path               string
	Method             string
	ReqBody            []byte
	Read               int // 0 read all, 1 read nothing, 2 read a part
	ReadPart           int
	ReadStep           int
	ReadSleepMs        int
	Status             int
	Hdr                [][2]string // in the order set
	Writes             []hwrite
	Trailers           [][2]string // name, value
	TrailerPrefixStyle bool
	TrailerLines       bool // one "Trailer" header line per trailer name instead of one list
	Huge               bool
	ClientReset        bool        // the client resets this stream in mid-response
	HoldUntil          func() bool // the handler waits for this before answering (nil: no wait)
	HoldBeforeRead     func() bool // the handler waits for this before it reads the body
	OnStart, OnDone    func()

	// observed
	Started, Done                 bool
	GotBody                       []byte
	ReadErr                       error
	Wrote                         []byte
	WriteErr                      error
	SeenMethod, SeenHost, SeenURI string
	SeenHdr                       http.Header
}

func (e *h2eng) serveHTTP(w http.ResponseWriter, r *http.Request) {
	if e.customHandler != nil {
		e.customHandler(w, r)
		return
	}
	p := e.byPath[r.URL.Path]
	if p == nil {
		e.s.Note("handler", fmt.Sprintf("request for unplanned path %q method %q host %q", r.URL.Path, r.Method, r.Host))
		p = &hplan{Path: r.URL.Path, Status: 200}
		e.byPath["?"+r.URL.Path] = p
	}
	p.Started = true
	if p.OnStart != nil {
		p.OnStart()
	}
	if p.OnDone != nil {
		defer p.OnDone()
	}
	p.SeenMethod, p.SeenHost, p.SeenURI, p.SeenHdr = r.Method, r.Host, r.RequestURI, r.Header
	e.s.Note("handler", fmt.Sprintf("start %s %s", r.Method, r.URL.Path))
	if p.HoldBeforeRead != nil {
		simrt.WaitUntil(p.HoldBeforeRead)
	}
	switch p.Read {
	case 0, 2:
		step := p.ReadStep
		if step <= 0 {
			step = 4096
		}
		buf := make([]byte, step)
		for {
			if p.Read == 2 && len(p.GotBody) >= p.ReadPart {
				break
			}
			n, err := r.Body.Read(buf)
			p.GotBody = append(p.GotBody, buf[:n]...)
			if err != nil {
				if err != io.EOF {
					p.ReadErr = err
				}
				break
			}
			if p.ReadSleepMs > 0 {
				simrt.Sleep(time.Duration(p.ReadSleepMs) * time.Millisecond)
			}
		}
	}
	if p.HoldUntil != nil {
		simrt.WaitUntil(p.HoldUntil)
	}
	for _, kv := range p.Hdr {
		w.Header().Add(kv[0], kv[1])
	}
	if len(p.Trailers) > 0 && !p.TrailerPrefixStyle {
		var names []string
		for _, t := range p.Trailers {
			names = append(names, t[0])
		}
		if p.TrailerLines {
			for _, n := range names {
				w.Header().Add("Trailer", n)
			}
		} else {
			w.Header().Set("Trailer", strings.Join(names, ", "))
		}
	}
	w.WriteHeader(p.Status)
	fl, _ := w.(http.Flusher)
	for _, wr := range p.Writes {
		if wr.SleepMs > 0 {
			simrt.Sleep(time.Duration(wr.SleepMs) * time.Millisecond)
		}
		b := patterned(len(p.Wrote), wr.N, byte(p.ID))
		n, err := w.Write(b)
		p.Wrote = append(p.Wrote, b[:n]...)
		if err != nil {
			p.WriteErr = err
			break
		}
		if wr.Flush && fl != nil {
			fl.Flush()
		}
	}
	for _, t := range p.Trailers {
		if p.TrailerPrefixStyle {
			w.Header().Set(TrailerPrefix+t[0], t[1])
		} else {
			w.Header().Set(t[0], t[1])
		}
	}
	p.Done = true
	e.s.Note("handler", fmt.Sprintf("done %s wrote=%d err=%v", r.URL.Path, len(p.Wrote), p.WriteErr))
}

// patterned bytes: position-dependent so that reordering, loss and duplication all show.
func patterned(off, n int, salt byte) []byte {
	b := make([]byte, n)
	for i := range b {
		x := off + i
		b[i] = byte(x) ^ byte(x>>8)*31 ^ salt
	}
	return b
}

// panics recovered by the server (metrics counters) since the run began
func h2Panics() int64 {
	return int64(state.H2PanicConn.Get()) + int64(state.H2PanicStream.Get())
}

func sortedIDs(m map[uint32]*hplan) []uint32 {
	var r []uint32
	for k := range m {
		r = append(r, k)
	}
	sort.Slice(r, func(i, j int) bool { return r[i] < r[j] })
	return r
}

// finish: let the connection drain, then close the client side and wait for the server to end.
func (e *h2eng) finish(linger time.Duration) {
	simrt.Sleep(linger)
	e.stopRead = false
	e.cli.Close()
	simrt.WaitUntil(func() bool { return e.readerDone })
	simrt.Sleep(2 * time.Second)
}
