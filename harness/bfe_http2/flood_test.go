//go:build verif
// +build verif

package bfe_http2

import (
	"fmt"
	"time"

	xh2 "golang.org/x/net/http2"

	"verif/simrt"
)

// C37: a client that elicits control frames (PING acks, SETTINGS acks, RST_STREAMs) and stops
// reading. After 0-400 answered PINGs of ordinary traffic the client stalls (at a seeded point:
// before the server's SETTINGS, after them, in the middle of an answer) with a receive window of
// 0-200 bytes, then sends a flood. Below the limit the connection must survive and every PING is
// answered once the client reads again; above it the connection is closed; at no quiescent point
// does the server hold more queued control frames than the limit (plus the few in the pipeline).

const floodSlack = 64

func (e *h2eng) floodInvariant() error {
	sc := e.sc
	if sc == nil {
		return nil
	}
	if n := len(sc.writeSched.zero.s); n > maxQueuedControlFrames+floodSlack {
		e.queuePeak = n
		return errQueue
	}
	if n := len(sc.writeSched.zero.s); n > e.queuePeak {
		e.queuePeak = n
	}
	return nil
}

var errQueue = fmt.Errorf("C37.bound: the server's queue of pending control frames grew beyond the configured limit")

func runFlood(s *simrt.Sim) {
	initCounters()
	tp := s.Tape
	s.SetSticky([]int{4, 10, 30}[tp.Draw(3, "sched.strategy")])
	s.SetSelectOrder(tp.Draw(3, "selectorder"))
	s.SetMapOrder(tp.Draw(3, "maporder"))
	e := newH2(s, "C37")
	p0 := h2Panics()
	e.start(&Server{}, nil)
	s.Invariant(e.floodInvariant)
	limit := maxQueuedControlFrames
	// ordinary traffic first: answered PINGs
	warm := []int{0, 0, 3, 50, 400}[tp.Draw(5, "warmup_pings")]
	stallEarly := warm == 0 && tp.Chance(1, 2, "stall_before_settings")
	if stallEarly {
		e.stopRead = true
	} else {
		simrt.WaitUntil(func() bool { return e.gotSrvSettings || e.readerDone })
	}
	for i := 0; i < warm && !e.readerDone; i++ {
		if !e.pingRoundTrip(i) {
			s.FailK("C37.legal", "connection-lost-on-ordinary-pings", "the connection ended during %d answered PINGs: %v", warm, e.readErr)
			return
		}
	}
	// stall: stop reading, tiny receive window
	e.stopRead = true
	e.cli.SetWindow([]int{0, 1, 9, 200}[tp.Draw(4, "stall_window")])
	kind := tp.Draw(4, "flood.kind") // 0 PING, 1 SETTINGS, 2 RST-eliciting, 3 mixed
	over := tp.Chance(1, 2, "flood.over")
	n := limit/2 + tp.Draw(limit/3, "flood.n_below")
	if over {
		n = limit + 300 + tp.Draw(500, "flood.n_over")
	}
	sentPings := 0
	writeErr := false
	e.s.Note("op", fmt.Sprintf("client stalls and floods: kind=%d frames=%d (limit %d)", kind, n, limit))
	e.s.Fault("reader_stall")
	for i := 0; i < n; i++ {
		k := kind
		if kind == 3 {
			k = tp.Draw(3, "flood.mix")
		}
		var err error
		e.wmu.Lock()
		switch k {
		case 0:
			err = e.fr.WritePing(false, [8]byte{'f', byte(i >> 16), byte(i >> 8), byte(i)})
			sentPings++
		case 1:
			err = e.fr.WriteSettings(xh2.Setting{ID: xh2.SettingMaxFrameSize, Val: 16384})
		case 2:
			// a WINDOW_UPDATE with increment 0 on a stream: the server answers RST_STREAM
			err = e.fr.WriteRawFrame(xh2.FrameWindowUpdate, 0, uint32(1+2*(i%1000)), []byte{0, 0, 0, 0})
		}
		e.wmu.Unlock()
		if err != nil {
			writeErr = true
			break
		}
	}
	e.s.Fault("control_frame_flood")
	// give the server time to work through what it received
	simrt.Sleep(2 * time.Second)
	if s.Failed() {
		return
	}
	closedByServer := writeErr || e.srvDone
	s.Checked(1)
	if over {
		if !closedByServer {
			// look once more after reading resumes: a closed connection shows as EOF
			e.stopRead = false
			e.cli.SetWindow(64 << 10)
			simrt.Sleep(2 * time.Second)
			closedByServer = e.srvDone
		}
		if !closedByServer && e.queuePeak < limit {
			// the answers were coalesced (SETTINGS acknowledgements are one pending flag, not
			// queue entries): nothing grew, nothing to cut off
			s.Probe("h2_flood_absorbed")
		} else if !closedByServer {
			s.FailK("C37.close", "flood-beyond-limit-not-cut-off", "the client elicited %d control frames (kind %d) without reading, the limit is %d, and the connection is still served; queue peak %d", n, kind, limit, e.queuePeak)
			return
		}
		if closedByServer {
			s.Probe("h2_flood_cut_off")
		}
	} else {
		if closedByServer {
			s.FailK("C37.premature", "connection-closed-below-limit", "the client elicited %d control frames (limit %d) and the server closed the connection; queue peak %d", n, limit, e.queuePeak)
			return
		}
		// the client reads again: everything queued arrives, every PING has its answer
		acks0 := e.countPingAcks('f')
		e.stopRead = false
		e.cli.SetWindow(64 << 10)
		ok := e.pingRoundTrip(1 << 20)
		if !ok {
			s.FailK("C37.premature", "connection-lost-after-stall-below-limit", "after a stall with %d elicited control frames (limit %d) the connection did not recover: %v", n, limit, e.readErr)
			return
		}
		if got := e.countPingAcks('f'); got != sentPings {
			s.FailK("C37.acks", "ping-answers-lost", "%d PINGs were sent during the stall, %d answers arrived (%d before reading resumed)", sentPings, got, acks0)
			return
		}
		s.Probe("h2_flood_survived")
	}
	e.finish(20 * time.Millisecond)
	if n := h2Panics() - p0; n > 0 {
		s.FailK("C37.panic", "server-panic", "%d panic(s) recovered inside the HTTP/2 server", n)
	}
}

func (e *h2eng) countPingAcks(tag byte) int {
	n := 0
	for _, f := range e.recv {
		if f.Type == xh2.FramePing && f.Ack && len(f.Data) == 8 && f.Data[0] == tag {
			n++
		}
	}
	return n
}

// pingRoundTrip sends a PING and waits for its answer.
func (e *h2eng) pingRoundTrip(i int) bool {
	d := [8]byte{'w', byte(i >> 16), byte(i >> 8), byte(i), 0, 0, 0, 1}
	e.wmu.Lock()
	err := e.fr.WritePing(false, d)
	e.wmu.Unlock()
	if err != nil {
		return false
	}
	simrt.WaitUntil(func() bool {
		if e.readerDone {
			return true
		}
		for j := len(e.recv) - 1; j >= 0 && j >= len(e.recv)-64; j-- {
			f := e.recv[j]
			if f.Type == xh2.FramePing && f.Ack && len(f.Data) == 8 && string(f.Data) == string(d[:]) {
				return true
			}
		}
		return false
	})
	return !e.readerDone
}
