//go:build verif
// +build verif

package hpack

import (
	"bytes"
	"fmt"
	"testing"

	xhpack "golang.org/x/net/http2/hpack"

	"verif/simrt"
)

// Engine D4: bfe_http2/hpack fed incrementally. The decoder receives every header block in
// seeded splits (Write calls of 1..n bytes, as segments arrive from a connection) and is
// compared with golang.org/x/net/http2/hpack, an independent RFC 7541 implementation, which
// sees the same bytes in one piece.

func TestSim(t *testing.T) {
	simrt.Main(t, map[string]simrt.Prop{
		"C30": {Run: runC30},
		"C31": {Run: runC31},
	})
}

var names = []string{":method", ":path", ":authority", "accept", "cookie", "authorization", "x-session", "x-custom-header", "content-type", "user-agent", "x-a", "x-b"}

func genField(tp *simrt.Tape) HeaderField {
	f := HeaderField{Name: names[tp.Draw(len(names), "f.name")]}
	if tp.Chance(1, 5, "f.newname") {
		f.Name = fmt.Sprintf("x-gen-%d", tp.Draw(40, "f.name_n"))
	}
	switch tp.Draw(5, "f.value_class") {
	case 0:
		f.Value = ""
	case 1:
		f.Value = []string{"GET", "/", "/index.html", "gzip, deflate", "text/html"}[tp.Draw(5, "f.value_static")]
	case 2:
		f.Value = fmt.Sprintf("v%d", tp.Draw(50, "f.value_n"))
	case 3:
		n := tp.Draw(300, "f.value_len")
		b := make([]byte, n)
		for i := range b {
			b[i] = byte(32 + tp.Draw(95, "f.value_byte"))
		}
		f.Value = string(b)
	case 4:
		n := 3000 + tp.Draw(3000, "f.value_biglen") // larger than a small table, sometimes than the default one
		f.Value = string(bytes.Repeat([]byte{byte('a' + tp.Draw(26, "f.value_fill"))}, n))
	}
	f.Sensitive = tp.Chance(1, 6, "f.sensitive")
	return f
}

// feed writes p to the decoder in seeded pieces.
func feed(tp *simrt.Tape, d *Decoder, p []byte, split bool) error {
	for len(p) > 0 {
		n := len(p)
		if split && n > 1 {
			if tp.Chance(1, 3, "split.tiny") {
				n = 1 + tp.Draw(minInt(n, 3), "split.tiny_n")
			} else {
				n = 1 + tp.Draw(n, "split.n")
			}
		}
		if _, err := d.Write(p[:n]); err != nil {
			return err
		}
		p = p[n:]
	}
	return d.Close()
}

func minInt(a, b int) int {
	if a < b {
		return a
	}
	return b
}

// C30: what the encoder writes, for any sequence of header lists and table size changes, is decoded
// by a decoder with the same settings into the same names, values and never-index flags; both
// dynamic tables stay within the negotiated size. The reference decoder must agree as well.
func runC30(s *simrt.Sim) {
	tp := s.Tape
	split := simrt.Mode() != "nofault"
	var buf bytes.Buffer
	enc := NewEncoder(&buf)
	var got []HeaderField
	dec := NewDecoder(4096, func(f HeaderField) error { got = append(got, f); return nil })
	var ref []xhpack.HeaderField
	rdec := xhpack.NewDecoder(4096, func(f xhpack.HeaderField) { ref = append(ref, f) })
	limit := uint32(4096) // SETTINGS_HEADER_TABLE_SIZE the decoding side announced
	cur := uint32(4096)
	nlists := tp.Range(1, 12, "n_lists")
	refDead := false
	for li := 0; li < nlists; li++ {
		// table size changes happen between header blocks
		for k := tp.Draw(3, "n_size_changes"); k > 0; k-- {
			switch tp.Draw(3, "size_change.kind") {
			case 0: // the peer announces another limit
				limit = []uint32{0, 100, 1000, 4096, 16384}[tp.Draw(5, "limit")]
				enc.SetMaxDynamicTableSizeLimit(limit)
				dec.SetAllowedMaxDynamicTableSize(limit)
				rdec.SetAllowedMaxDynamicTableSize(limit)
				if cur > limit {
					cur = limit
				}
			default: // the encoder picks a size within the limit
				v := []uint32{0, 50, 100, 500, 2048, 4096, 9000}[tp.Draw(7, "size")]
				if v > limit {
					v = limit
				}
				cur = v
				enc.SetMaxDynamicTableSize(v)
			}
			s.Fault("table_size_change")
		}
		n := tp.Range(1, 8, "n_fields")
		var want []HeaderField
		buf.Reset()
		for i := 0; i < n; i++ {
			f := genField(tp)
			want = append(want, f)
			if err := enc.WriteField(f); err != nil {
				s.FailK("C30.encode", "encoder-error", "WriteField(%v): %v", f, err)
				return
			}
		}
		block := append([]byte(nil), buf.Bytes()...)
		// the receiving side may stop emitting in the middle of a connection (bfe_http2 does for a
		// header list over its limit): nothing is emitted, but the table must keep in step
		dec.SetEmitEnabled(true)
		rdec.SetEmitEnabled(true)
		emitOff := split && tp.Chance(1, 6, "emit_off")
		if emitOff {
			dec.SetEmitEnabled(false)
			rdec.SetEmitEnabled(false)
			want = want[:0]
			s.Fault("emit_disabled")
		}
		s.Note("op", fmt.Sprintf("list %d: %d fields, block %d bytes %x emit_off=%v", li, n, len(block), clipb(block, 24), emitOff))
		got, ref = got[:0], ref[:0]
		if err := feed(tp, dec, block, split); err != nil {
			s.FailK("C30.roundtrip", "own-decoder-rejects-encoder-output", "header list %d: the decoder rejects what the encoder wrote: %v (block %x)", li, err, clipb(block, 64))
			return
		}
		s.Checked(1)
		if len(got) != len(want) {
			s.FailK("C30.roundtrip", "field-count-differs", "header list %d: %d fields encoded, %d decoded", li, len(want), len(got))
			return
		}
		for i := range want {
			if got[i].Name != want[i].Name || got[i].Value != want[i].Value {
				s.FailK("C30.roundtrip", "field-differs", "header list %d field %d: encoded %q=%q, decoded %q=%q", li, i, want[i].Name, clips(want[i].Value), got[i].Name, clips(got[i].Value))
				return
			}
			if got[i].Sensitive != want[i].Sensitive {
				s.FailK("C30.sensitive", "never-index-flag-lost", "header list %d field %d (%s): never-index flag encoded %v, decoded %v", li, i, want[i].Name, want[i].Sensitive, got[i].Sensitive)
				return
			}
		}
		if refDead {
			s.Probe("hpack_list_roundtrip")
			continue
		}
		if _, err := rdec.Write(block); err != nil {
			if errClass(err) == "size-update-position" && len(block) > 2 && block[0]&0xe0 == 0x20 {
				// x/net (2020) refuses a second table size update at the start of a block when its table is
				// not empty, which RFC 7541 4.2 allows (minimum and final size): its state is unusable from here
				refDead = true
				rdec.Close()
				s.Probe("hpack_reference_gave_up")
				continue
			}
			s.FailK("C30.reference", "reference-decoder-rejects-encoder-output", "header list %d: golang.org/x/net's decoder rejects what the encoder wrote: %v (block %x)", li, err, clipb(block, 64))
			return
		}
		if err := rdec.Close(); err != nil {
			s.FailK("C30.reference", "reference-decoder-rejects-encoder-output", "header list %d: %v", li, err)
			return
		}
		if len(ref) != len(want) {
			s.FailK("C30.reference", "reference-field-count-differs", "header list %d: %d fields encoded, the reference decodes %d", li, len(want), len(ref))
			return
		}
		for i := range want {
			if ref[i].Name != want[i].Name || ref[i].Value != want[i].Value || ref[i].Sensitive != want[i].Sensitive {
				s.FailK("C30.reference", "reference-field-differs", "header list %d field %d: encoded %q=%q sensitive=%v, the reference decodes %q=%q sensitive=%v", li, i, want[i].Name, clips(want[i].Value), want[i].Sensitive, ref[i].Name, clips(ref[i].Value), ref[i].Sensitive)
				return
			}
		}
		if enc.dynTab.size > enc.dynTab.maxSize || enc.dynTab.maxSize > limit {
			s.FailK("C30.bound", "encoder-table-over-limit", "after list %d the encoder's dynamic table holds %d bytes, max %d, negotiated limit %d", li, enc.dynTab.size, enc.dynTab.maxSize, limit)
			return
		}
		if dec.dynTab.size > dec.dynTab.maxSize || dec.dynTab.maxSize > limit {
			s.FailK("C30.bound", "decoder-table-over-limit", "after list %d the decoder's dynamic table holds %d bytes, max %d, negotiated limit %d", li, dec.dynTab.size, dec.dynTab.maxSize, limit)
			return
		}
		if enc.dynTab.size != dec.dynTab.size || len(enc.dynTab.ents) != len(dec.dynTab.ents) {
			s.FailK("C30.sync", "tables-out-of-step", "after list %d the encoder's table has %d entries / %d bytes, the decoder's %d / %d", li, len(enc.dynTab.ents), enc.dynTab.size, len(dec.dynTab.ents), dec.dynTab.size)
			return
		}
		s.Probe("hpack_list_roundtrip")
	}
	_ = cur
}

func clips(v string) string {
	if len(v) > 40 {
		return v[:40] + "..."
	}
	return v
}

func clipb(b []byte, n int) []byte {
	if len(b) > n {
		return b[:n]
	}
	return b
}

// C31: any byte string, delivered in any pieces: the decoder emits exactly what the reference
// decoder emits, or reports an error; where the reference reports an error (bad Huffman padding,
// EOS, index out of range, oversized table size update, over-long integer ...) it must too; never a panic.
func runC31(s *simrt.Sim) {
	tp := s.Tape
	split := simrt.Mode() != "nofault"
	maxTab := []uint32{4096, 4096, 256, 0}[tp.Draw(4, "dec.table")]
	var got []HeaderField
	dec := NewDecoder(maxTab, func(f HeaderField) error { got = append(got, f); return nil })
	var ref []xhpack.HeaderField
	rdec := xhpack.NewDecoder(maxTab, func(f xhpack.HeaderField) { ref = append(ref, f) })
	if tp.Chance(1, 4, "dec.maxstr") {
		n := 16 + tp.Draw(200, "dec.maxstr_n")
		dec.SetMaxStringLength(n)
		rdec.SetMaxStringLength(n)
	}
	var ebuf bytes.Buffer
	renc := xhpack.NewEncoder(&ebuf) // valid material comes from the reference encoder
	nblocks := tp.Range(1, 6, "n_blocks")
	for bi := 0; bi < nblocks; bi++ {
		var block []byte
		switch tp.Draw(4, "block.kind") {
		case 0, 1: // a valid block, maybe damaged
			ebuf.Reset()
			if tp.Chance(1, 4, "block.size_update") {
				renc.SetMaxDynamicTableSize([]uint32{0, 64, 256, 4096}[tp.Draw(4, "block.size_update_v")])
			}
			for i := tp.Range(1, 6, "block.n_fields"); i > 0; i-- {
				f := genField(tp)
				renc.WriteField(xhpack.HeaderField{Name: f.Name, Value: f.Value, Sensitive: f.Sensitive})
			}
			block = append([]byte(nil), ebuf.Bytes()...)
			if tp.Chance(1, 2, "block.damage") && len(block) > 0 {
				for k := 1 + tp.Draw(3, "damage.n"); k > 0; k-- {
					i := tp.Draw(len(block), "damage.at")
					switch tp.Draw(4, "damage.kind") {
					case 0:
						block[i] ^= 1 << uint(tp.Draw(8, "damage.bit"))
					case 1:
						block = block[:i]
					case 2:
						block = append(block[:i], append([]byte{byte(tp.Draw(256, "damage.byte"))}, block[i:]...)...)
					case 3:
						block[i] = 0xff
					}
					if len(block) == 0 {
						break
					}
				}
				s.Fault("block_damaged")
			}
		case 2: // crafted edge cases
			block = craft(tp)
			s.Fault("crafted_block")
		case 3: // raw bytes
			n := tp.Draw(40, "raw.len")
			block = make([]byte, n)
			for i := range block {
				block[i] = byte(tp.Draw(256, "raw.byte"))
			}
			s.Fault("raw_block")
		}
		s.Note("op", fmt.Sprintf("block %d: %x", bi, clipb(block, 48)))
		got, ref = got[:0], ref[:0]
		var gerr error
		func() {
			defer func() {
				if r := recover(); r != nil {
					gerr = fmt.Errorf("PANIC: %v", r)
				}
			}()
			gerr = feed(tp, dec, block, split)
		}()
		_, rerr := rdec.Write(block)
		if rerr == nil {
			rerr = rdec.Close()
		}
		s.Checked(1)
		if gerr != nil && len(gerr.Error()) > 6 && gerr.Error()[:6] == "PANIC:" {
			s.FailK("C31.panic", "decoder-panics", "block %x: %v", clipb(block, 80), gerr)
			return
		}
		// (the property names the conditions that must be errors; elsewhere the reference being
		// stricter than bfe is not a finding as long as the emitted fields agree)
		if cls := ""; rerr != nil && gerr == nil && func() bool {
			cls = errClass(rerr)
			return cls == "huffman" || cls == "index" || cls == "size-update" || cls == "integer"
		}() {
			s.FailK("C31.strict", "invalid-block-accepted:"+errClass(rerr), "block %x: the reference decoder reports %q, bfe's decoder accepts it and emits %d fields", clipb(block, 80), rerr, len(got))
			return
		}
		// whatever was emitted must be what the reference emitted (a prefix of it when an error stopped the block)
		n := len(got)
		if rerr != nil && errClass(rerr) == "size-update-position" && n > len(ref) {
			n = len(ref) // the reference stopped where bfe legitimately went on: compare what both emitted
		} else if gerr == nil && rerr == nil && n != len(ref) {
			s.FailK("C31.fields", "field-count-differs", "block %x: bfe emits %d fields %v, the reference %d %v", clipb(block, 80), n, fieldNames(got), len(ref), refNames(ref))
			return
		}
		if n > len(ref) {
			s.FailK("C31.fields", "more-fields-than-reference", "block %x: bfe emits %d fields (err %v), the reference %d (err %v)", clipb(block, 80), n, gerr, len(ref), rerr)
			return
		}
		for i := 0; i < n; i++ {
			if got[i].Name != ref[i].Name || got[i].Value != ref[i].Value || got[i].Sensitive != ref[i].Sensitive {
				s.FailK("C31.fields", "field-differs-from-reference", "block %x field %d: bfe %q=%q sensitive=%v, reference %q=%q sensitive=%v", clipb(block, 80), i, got[i].Name, clips(got[i].Value), got[i].Sensitive, ref[i].Name, clips(ref[i].Value), ref[i].Sensitive)
				return
			}
		}
		if gerr != nil || rerr != nil {
			s.Probe("hpack_error_block_checked")
			return // after a decoding error the connection is over; so is the run
		}
		s.Probe("hpack_valid_block_checked")
	}
}

func errClass(err error) string {
	e := err.Error()
	switch {
	case bytes.Contains([]byte(e), []byte("huffman")) || bytes.Contains([]byte(e), []byte("Huffman")):
		return "huffman"
	case bytes.Contains([]byte(e), []byte("index")):
		return "index"
	case bytes.Contains([]byte(e), []byte("MUST occur at the beginning")):
		return "size-update-position"
	case bytes.Contains([]byte(e), []byte("size update")) || bytes.Contains([]byte(e), []byte("table size")):
		return "size-update"
	case bytes.Contains([]byte(e), []byte("varint")) || bytes.Contains([]byte(e), []byte("integer")):
		return "integer"
	case bytes.Contains([]byte(e), []byte("truncated")):
		return "truncated"
	}
	return "other"
}

// craft builds the edge cases RFC 7541 calls out.
func craft(tp *simrt.Tape) []byte {
	lit := func(h bool, s []byte) []byte { // literal without indexing, new name "x", value s (raw string bytes given)
		b := []byte{0x00, 0x01, 'x'}
		l := byte(len(s))
		if h {
			l |= 0x80
		}
		return append(append(b, l), s...)
	}
	switch tp.Draw(12, "craft.kind") {
	case 0:
		return lit(true, []byte{0xff, 0xff, 0xff}) // only EOS prefix bits: more than 7 bits of padding
	case 1:
		return lit(true, []byte{0x3f, 0xff, 0xff, 0xff, 0xff}) // an encoded EOS
	case 2:
		return lit(true, []byte{0x00}) // '0' (00000) then padding 000: not a prefix of EOS
	case 3:
		return lit(true, []byte{0x07}) // '0' then 111: valid padding
	case 4:
		return []byte{0xff, 0xff, 0xff, 0xff, 0xff, 0xff, 0xff, 0xff, 0xff, 0xff, 0x7f} // indexed, over-long integer
	case 5:
		return []byte{0x80} // index 0
	case 6:
		return []byte{0x80 | 62} // first dynamic index on an empty table
	case 7:
		return []byte{0x3f, 0xe1, 0xff, 0x03} // table size update far above the maximum
	case 8:
		return append([]byte{0x82}, 0x20) // size update after a field
	case 9:
		// size updates of 2^32 and more whose low 32 bits look harmless
		v := uint64(1)<<uint(32+tp.Draw(9, "craft.big_shift")) + uint64([]int{0, 100, 4096}[tp.Draw(3, "craft.big_low")])
		return varInt(0x20, 5, v)
	case 10:
		return lit(true, []byte{0x00, 0x3f, 0xff, 0xff, 0xff})
	default:
		n := 1 + tp.Draw(6, "craft.huff_len")
		b := make([]byte, n)
		for i := range b {
			b[i] = byte(tp.Draw(256, "craft.huff_byte"))
		}
		return lit(true, b)
	}
}

func fieldNames(fs []HeaderField) []string {
	var r []string
	for _, f := range fs {
		r = append(r, f.Name+"="+clips(f.Value))
	}
	return r
}

func refNames(fs []xhpack.HeaderField) []string {
	var r []string
	for _, f := range fs {
		r = append(r, f.Name+"="+clips(f.Value))
	}
	return r
}

// varInt encodes v with an n-bit prefix (RFC 7541 5.1) under the given pattern bits.
func varInt(pattern byte, n uint, v uint64) []byte {
	max := uint64(1)<<n - 1
	if v < max {
		return []byte{pattern | byte(v)}
	}
	b := []byte{pattern | byte(max)}
	v -= max
	for v >= 128 {
		b = append(b, byte(v&0x7f)|0x80)
		v >>= 7
	}
	return append(b, byte(v))
}
