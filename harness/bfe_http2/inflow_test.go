//go:build verif
// +build verif

package bfe_http2

import (
	"bytes"
	"fmt"
	"time"

	xh2 "golang.org/x/net/http2"
	xhpack "golang.org/x/net/http2/hpack"

	"verif/simrt"
)

// C33: uploads against the server's receive windows. 1-3 concurrent POST streams send DATA in
// seeded frame sizes and paddings; handlers read everything (in seeded steps, with pauses), a part,
// or nothing. The respectful client never sends beyond the windows the server advertised
// (SETTINGS_INITIAL_WINDOW_SIZE, 65535 for the connection, plus WINDOW_UPDATEs); a violating
// client exceeds a window once, by a few bytes.

type upload struct {
	p                   *hplan
	sent                int   // body bytes sent
	fc                  int64 // flow-controlled bytes sent (data + padding)
	done                bool  // END_STREAM sent
	gaveUp              bool  // stream answered / reset before the body was out
	violated            bool
	sentBeforeViolation int
	cancelAt            int // the client gives the request up (RST_STREAM) once this many body bytes are out; -1 never
	cancelled           bool
}

func (e *h2eng) streamOver(id uint32) bool {
	fs := e.framesOf(id)
	return len(fs) > 0 && (fs[len(fs)-1].EndStream || fs[len(fs)-1].Type == xh2.FrameRSTStream) || e.readerDone || e.goAway() != nil
}

// runInflowC34: the upload workload (handlers reading request bodies while the client
// is still sending, client resets in the middle) with C34's white-box invariant on:
// stream-level WINDOW_UPDATEs are the frames a server queues for a stream whose peer
// may reset it at any moment.
func runInflowC34(s *simrt.Sim) {
	c34Invariant = true
	defer func() { c34Invariant = false }()
	runInflow(s)
}

var c34Invariant bool

func runInflow(s *simrt.Sim) {
	initCounters()
	tp := s.Tape
	faults := simrt.Mode() != "nofault"
	s.SetSticky([]int{2, 4, 10}[tp.Draw(3, "sched.strategy")])
	s.SetSelectOrder(tp.Draw(3, "selectorder"))
	s.SetSelectYield(tp.Chance(1, 2, "selectyield"))
	s.SetMapOrder(tp.Draw(3, "maporder"))
	e := newH2(s, "C33")
	if c34Invariant {
		s.Invariant(e.queuedForClosedInvariant)
	}
	seg := 0
	if faults {
		seg = []int{0, 3, 8}[tp.Draw(3, "net.seg")]
	}
	p0 := h2Panics()
	srv := &Server{MaxUploadBufferPerStream: []uint32{0, 0, 1000, 20000, 1 << 18}[tp.Draw(5, "srv.upload_window")]}
	e.wuPolicy = 0
	e.start(srv, nil)
	// the server's SETTINGS tell the stream window; wait for them like a real client does
	simrt.WaitUntil(func() bool { return e.gotSrvSettings || e.readerDone })
	if !e.gotSrvSettings {
		s.FailK("C33.start", "no-server-settings", "connection ended before the server's SETTINGS: %v", e.readErr)
		return
	}
	connInit := e.srvConnWin
	violate := faults && tp.Chance(1, 4, "violate")
	if !violate {
		e.connCap = connInit // over-credit is judged on runs where the client's accounting is exact
	}
	violKind := tp.Draw(2, "violate.kind") // 0 stream window, 1 connection window
	nstreams := tp.Range(1, 3, "n_streams")
	e.holdAll = violate
	var ups []*upload
	base := uint32(1)
	if violate && tp.Chance(1, 2, "late_data_prologue") {
		// DATA that reaches the server after it has closed the stream (the handler answered
		// without reading): the frame is dropped, but it is charged to the connection window
		// and given back like any other, so the windows the client computes stay exact
		base = 3
		lp := &hplan{ID: 1, Path: "/u1", Method: "POST", Status: 200, Read: 1, Writes: []hwrite{{N: 3}}}
		e.handlers[1] = lp
		e.byPath[lp.Path] = lp
		if err := e.openStream(1, reqFields("POST", lp.Path, xhpack.HeaderField{Name: "content-type", Value: "application/x-verif"}), false); err == nil {
			simrt.WaitUntil(func() bool { return e.streamOver(1) })
			simrt.Sleep(20 * time.Millisecond)
			if !e.readerDone && e.goAway() == nil {
				late := int64(8 + tp.Draw(2000, "late_data_len"))
				e.wmu.Lock()
				e.srvConnWin -= late
				e.writeDataLocked(1, patterned(0, int(late), 1), 0, false)
				e.wmu.Unlock()
				s.Fault("data_on_closed_stream")
				deadline := s.Now() + 2*time.Second
				for e.srvConnWin < connInit && !e.readerDone && s.Now() < deadline {
					simrt.Sleep(10 * time.Millisecond)
				}
				if e.srvConnWin < connInit && !e.readerDone && e.goAway() == nil {
					s.FailK("C33.replenish", "dropped-data-not-given-back", "%d bytes of DATA on a stream the server had closed were not given back to the connection window within 2 s: it stands at %d of %d", late, e.srvConnWin, connInit)
					return
				}
				s.Probe("h2_late_data_before_violation")
			}
		}
	}
	for i := 0; i < nstreams; i++ {
		id := base + uint32(2*i)
		p := &hplan{ID: id, Path: fmt.Sprintf("/u%d", id), Method: "POST", Status: 200}
		size := []int{0, 10, 900, 30000, 70000, 200000}[tp.Draw(6, "body.class")]
		if size > 0 {
			size = 1 + tp.Draw(size, "body.len")
		}
		p.ReqBody = patterned(0, size, byte(id))
		p.Read = []int{0, 0, 0, 1, 2}[tp.Draw(5, "h.read")]
		p.ReadStep = []int{7, 100, 4096, 70000}[tp.Draw(4, "h.read_step")]
		if tp.Chance(1, 3, "h.read_sleep") {
			p.ReadSleepMs = 1 + tp.Draw(20, "h.read_sleep_ms")
		}
		if p.Read == 2 {
			p.ReadPart = tp.Draw(size+1, "h.read_part")
		}
		if size > 20000 && p.ReadStep < 100 {
			p.ReadStep = 100
		}
		p.Writes = []hwrite{{N: 3}}
		if violate {
			// nothing is consumed (so nothing is given back) until the excess frame is out:
			// the server-side windows are then exactly what the client computes
			// ... and has been judged by the server (or 2 s have passed)
			p.HoldBeforeRead = func() bool {
				if e.violationImpossible || e.readerDone || e.goAway() != nil {
					return true
				}
				if !e.violationSent {
					return false
				}
				if s.Now()-e.violationAt > 2*time.Second {
					return true
				}
				for _, f := range e.recv {
					if f.Type == xh2.FrameRSTStream && f.Code == xh2.ErrCodeFlowControl {
						return true
					}
				}
				return false
			}
		}
		e.handlers[id] = p
		e.byPath[p.Path] = p
		u := &upload{p: p, cancelAt: -1}
		if faults && !violate && size > 0 && tp.Chance(1, 4, "up.cancel") {
			u.cancelAt = tp.Draw(size, "up.cancel_at")
		}
		ups = append(ups, u)
	}
	total := 0
	for _, u := range ups {
		total += len(u.p.ReqBody)
	}
	if total <= 40000 {
		// seeded segmentation of every read; for big uploads it would only multiply steps
		e.cli.Seg, e.srvc.Seg = seg, seg
	}
	var senders []*simrt.Task
	for i, u := range ups {
		u := u
		if err := e.openStream(u.p.ID, reqFields("POST", u.p.Path, xhpack.HeaderField{Name: "content-type", Value: "application/x-verif"}), false); err != nil {
			break
		}
		isViolator := violate && i == 0
		senders = append(senders, simrt.GoNamed("h2client.upload", int(u.p.ID), func() { e.upload(u, isViolator, violKind) }))
	}
	simrt.Join(senders...)
	e.sendersDone = true
	// let the handlers read on, and responses and window updates arrive: until every stream is
	// over or nothing has moved for a long simulated while
	progress := func() int {
		n := len(e.recv)
		for _, u := range ups {
			n += len(u.p.GotBody)
		}
		return n
	}
	last, lastAt := progress(), s.Now()
	for s.Now()-lastAt < 20*time.Second {
		all := true
		for _, u := range ups {
			if !u.cancelled && !e.streamOver(u.p.ID) {
				all = false
			}
		}
		if all {
			break
		}
		simrt.Sleep(50 * time.Millisecond)
		if n := progress(); n != last {
			last, lastAt = n, s.Now()
		}
	}
	simrt.Sleep(200 * time.Millisecond)
	connWinEnd := e.srvConnWin
	e.finish(20 * time.Millisecond)
	if s.Failed() {
		return
	}
	if n := h2Panics() - p0; n > 0 {
		s.FailK("C33.panic", "server-panic", "%d panic(s) recovered inside the HTTP/2 server", n)
		return
	}
	flowErr := func(id uint32) bool {
		if g := e.goAway(); g != nil && g.Code == xh2.ErrCodeFlowControl {
			return true
		}
		r := e.rstOf(id)
		return r != nil && r.Code == xh2.ErrCodeFlowControl
	}
	anyViolation := false
	for _, u := range ups {
		s.Checked(1)
		p := u.p
		if u.violated {
			anyViolation = true
			anyFlowErr := false
			for _, f := range e.recv {
				if (f.Type == xh2.FrameRSTStream || f.Type == xh2.FrameGoAway) && f.Code == xh2.ErrCodeFlowControl {
					anyFlowErr = true
				}
			}
			if anyFlowErr && !flowErr(p.ID) {
				// the connection window is shared: frames of two streams went out in another order than
				// the client accounted for them, and the excess was pinned on the other stream
				s.Probe("h2_inflow_violation_refused")
				continue
			}
			if !flowErr(p.ID) {
				s.FailK("C33.enforce", "excess-data-not-refused", "stream %d: the client sent DATA beyond the advertised window (kind %d) and got no FLOW_CONTROL_ERROR; frames: %s", p.ID, violKind, e.tail(8))
				return
			}
			if len(p.GotBody) > u.sentBeforeViolation {
				s.FailK("C33.enforce", "excess-data-reached-handler", "stream %d: handler received %d bytes, only %d were sent within the window", p.ID, len(p.GotBody), u.sentBeforeViolation)
				return
			}
			s.Probe("h2_inflow_violation_refused")
			continue
		}
		if violate {
			continue // another stream broke the connection-level window: this one may be collateral
		}
		if flowErr(p.ID) {
			s.FailK("C33.spurious", "flow-control-error-for-respectful-client", "stream %d: the client stayed within every advertised window and was answered with FLOW_CONTROL_ERROR; frames: %s", p.ID, e.tail(8))
			return
		}
		if !bytes.HasPrefix(p.ReqBody, p.GotBody) {
			s.FailK("C33.body", "handler-body-altered", "stream %d: handler read %d bytes that are not a prefix of the %d sent (first difference at %d)", p.ID, len(p.GotBody), u.sent, firstDiff(p.GotBody, p.ReqBody))
			return
		}
		if u.cancelled {
			s.Probe("h2_upload_cancelled_by_client")
			continue
		}
		if p.Read == 0 {
			if !u.done || len(p.GotBody) != len(p.ReqBody) {
				s.FailK("C33.liveness", "upload-stalled", "stream %d: handler reads the whole body, the client respects the windows, yet only %d of %d bytes got through (sent %d, END_STREAM sent %v); server windows as seen by the client: stream %d, connection %d", p.ID, len(p.GotBody), len(p.ReqBody), u.sent, u.done, e.srvStreamWin[p.ID], e.srvConnWin)
				return
			}
			s.Probe("h2_upload_complete")
			if len(p.ReqBody) > 65535 {
				s.Probe("h2_upload_above_window")
			}
		}
	}
	if !anyViolation && !violate && e.goAway() == nil {
		// every stream is over: whatever was sent has been consumed or discarded, the
		// connection window must be back where it started
		if connWinEnd != connInit {
			s.FailK("C33.replenish", "connection-window-not-restored", "all streams are closed, the client sent and the server took %d flow-controlled bytes in total, but the connection window stands at %d instead of %d: %d bytes were never given back", totalFC(ups), connWinEnd, connInit, connInit-connWinEnd)
			return
		}
		s.Probe("h2_conn_window_restored")
	}
}

func totalFC(ups []*upload) int64 {
	var n int64
	for _, u := range ups {
		n += u.fc
	}
	return n
}

// upload sends the request body of one stream.
func (e *h2eng) upload(u *upload, violator bool, violKind int) {
	tp := e.tp
	p := u.p
	id := p.ID
	if violator {
		// every handler holds, so nothing is given back and the windows the client computes are
		// exact: use them up with ordinary frames, then go over by 1..8 bytes
		by := int64(1 + tp.Draw(8, "violate.by"))
		padOnly := tp.Chance(1, 3, "violate.pad_only")
		for {
			// windows are read and charged under the write lock: the order of the client's
			// accounting is the order of the frames on the wire
			e.wmu.Lock()
			w := e.srvStreamWin[id]
			if e.srvConnWin < w {
				w = e.srvConnWin
			}
			remaining := int64(len(p.ReqBody) - u.sent)
			over := w + by
			if padOnly && over <= 256 && remaining >= 1 {
				// the excess frame carries no data at all, only padding (which is flow-controlled too)
				e.s.Fault("window_violation")
				e.s.Probe("h2_violation_by_padding")
				u.violated = true
				u.sentBeforeViolation = u.sent
				e.srvStreamWin[id] -= over
				e.srvConnWin -= over
				e.writeDataLocked(id, nil, int(over), false)
				e.wmu.Unlock()
				e.violationSent, e.violationAt = true, e.s.Now()
				return
			}
			if !padOnly && over <= 16384 && over <= remaining {
				e.s.Fault("window_violation")
				u.violated = true
				u.sentBeforeViolation = u.sent
				e.srvStreamWin[id] -= over
				e.srvConnWin -= over
				e.writeDataLocked(id, p.ReqBody[u.sent:u.sent+int(over)], 0, false)
				e.wmu.Unlock()
				e.violationSent, e.violationAt = true, e.s.Now()
				return
			}
			chunk := int64(16384)
			if chunk > w {
				chunk = w
			}
			if padOnly && w-chunk < 100 && w > 100 {
				chunk = w - 100 // leave a window a padding-only frame can exceed
			}
			if chunk <= 0 || remaining-chunk < 1 {
				e.wmu.Unlock()
				break // this body cannot exceed anything: carry on as a respectful client
			}
			e.srvStreamWin[id] -= chunk
			e.srvConnWin -= chunk
			u.fc += chunk
			err := e.writeDataLocked(id, p.ReqBody[u.sent:u.sent+int(chunk)], 0, false)
			e.wmu.Unlock()
			if err != nil {
				return
			}
			u.sent += int(chunk)
		}
		e.violationImpossible = true
	}
	for u.sent < len(p.ReqBody) {
		if u.cancelAt >= 0 && u.sent >= u.cancelAt {
			// the client loses interest in the middle of its upload
			e.s.Fault("client_rst_mid_upload")
			u.cancelled = true
			e.resetStream(id)
			return
		}
		chunk := []int{16384, 16384, 1000, 100, 1}[tp.Draw(5, "up.chunk")]
		if chunk == 1 && len(p.ReqBody) > 2000 {
			chunk = 50 // byte-sized frames only for small bodies
		}
		if chunk > len(p.ReqBody)-u.sent {
			chunk = len(p.ReqBody) - u.sent
		}
		pad := 0
		if !e.holdAll && tp.Chance(1, 4, "up.pad") {
			pad = 1 + tp.Draw(255, "up.pad_len")
			if chunk+pad > 16384 {
				chunk = 16384 - pad
			}
		}
		if chunk > 0 && pad > 0 && tp.Chance(1, 4, "up.pad_only_frame") {
			chunk = 0 // a frame of padding only: costs window, carries nothing
		}
		// a frame larger than the stream window can ever be would wait for ever
		if w := int(e.srvInitWin); chunk+pad > w {
			if pad >= w {
				pad = 0
			}
			if chunk+pad > w {
				chunk = w - pad
			}
		}
		need := int64(chunk + pad)
		ok := func() bool { return e.srvStreamWin[id] >= need && e.srvConnWin >= need }
		for {
			if !ok() {
				e.s.Probe("h2_upload_waited_for_window")
				simrt.WaitUntil(func() bool { return ok() || e.streamOver(id) })
			}
			if e.streamOver(id) {
				u.gaveUp = true
				return
			}
			e.wmu.Lock()
			if ok() {
				break // charged and written under the lock, see above
			}
			e.wmu.Unlock()
		}
		e.srvStreamWin[id] -= need
		e.srvConnWin -= need
		u.fc += need
		end := u.sent+chunk == len(p.ReqBody) && chunk > 0
		if chunk == 0 {
			e.s.Probe("h2_padding_only_frame")
		}
		err := e.writeDataLocked(id, p.ReqBody[u.sent:u.sent+chunk], pad, end)
		e.wmu.Unlock()
		if err != nil {
			return
		}
		u.sent += chunk
		if end {
			u.done = true
		}
		if tp.Chance(1, 6, "up.pause") {
			simrt.Sleep(time.Duration(1+tp.Draw(10, "up.pause_ms")) * time.Millisecond)
		}
	}
	if !u.done {
		e.writeData(id, nil, 0, true)
		u.done = true
	}
}
