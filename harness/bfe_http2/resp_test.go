//go:build verif
// +build verif

package bfe_http2

import (
	"bytes"
	"fmt"
	"strconv"
	"strings"
	"time"

	"github.com/baidu/go-lib/web-monitor/metrics"
	xh2 "golang.org/x/net/http2"
	xhpack "golang.org/x/net/http2/hpack"

	"verif/simrt"
)

func initCounters() {
	if state.H2PanicConn == nil {
		state.H2PanicConn = new(metrics.Counter)
		state.H2PanicStream = new(metrics.Counter)
		state.H2ConnExceedMaxQueuedControlFrames = new(metrics.Counter)
	}
}

var connSpecific = map[string]bool{"connection": true, "keep-alive": true, "proxy-connection": true, "transfer-encoding": true, "upgrade": true}

func bodyAllowed(status int) bool {
	return !(status >= 100 && status < 200 || status == 204 || status == 304)
}

// genHandler draws a response plan.
func (e *h2eng) genHandler(id uint32, method string) *hplan {
	tp := e.tp
	p := &hplan{ID: id, Path: fmt.Sprintf("/s%d", id), Method: method}
	p.Status = []int{200, 200, 200, 404, 500, 204, 304, 201}[tp.Draw(8, "h.status")]
	hs := [][2]string{{"X-Stream", fmt.Sprintf("%d", id)}}
	if tp.Chance(1, 2, "h.mixedcase") {
		hs = append(hs, [2]string{"X-MiXed-CaSe", "Value With Case"})
	}
	if tp.Chance(1, 3, "h.multi") {
		hs = append(hs, [2]string{"Set-Cookie", "a=1"}, [2]string{"Set-Cookie", "b=2; Path=/"})
	}
	if tp.Chance(1, 3, "h.ctype") {
		hs = append(hs, [2]string{"Content-Type", "application/x-verif"})
	}
	if tp.Chance(1, 2, "h.connspecific") {
		switch tp.Draw(6, "h.connspecific_which") {
		case 0:
			hs = append(hs, [2]string{"Connection", "keep-alive"}, [2]string{"Keep-Alive", "timeout=5"})
		case 1:
			hs = append(hs, [2]string{"Connection", "close"})
		case 2:
			hs = append(hs, [2]string{"Upgrade", "websocket"}, [2]string{"Connection", "Upgrade"})
		case 3:
			hs = append(hs, [2]string{"Proxy-Connection", "keep-alive"})
		case 4:
			hs = append(hs, [2]string{"Transfer-Encoding", "chunked"})
		case 5:
			hs = append(hs, [2]string{"Keep-Alive", "max=3"})
		}
	}
	total := 0
	if bodyAllowed(p.Status) {
		n := tp.Draw(5, "h.nwrites")
		for i := 0; i < n; i++ {
			w := hwrite{N: []int{0, 1, 10, 300, 5000, 20000, 70000}[tp.Draw(7, "h.write_class")]}
			if w.N > 1 {
				w.N = 1 + tp.Draw(w.N, "h.write_n")
			}
			if e.maxBody > 0 && total+w.N > e.maxBody {
				w.N = e.maxBody - total
			}
			w.Flush = tp.Chance(1, 3, "h.flush")
			if tp.Chance(1, 5, "h.sleep") {
				w.SleepMs = 1 + tp.Draw(30, "h.sleep_ms")
			}
			total += w.N
			p.Writes = append(p.Writes, w)
		}
		if tp.Chance(1, 4, "h.clen") {
			hs = append(hs, [2]string{"Content-Length", strconv.Itoa(total)})
		}
		if tp.Chance(1, 3, "h.trailers") {
			p.TrailerPrefixStyle = tp.Chance(1, 2, "h.trailer_prefix")
			p.Trailers = append(p.Trailers, [2]string{"X-Checksum", fmt.Sprintf("sum-%d", total)})
			if tp.Chance(1, 2, "h.trailer2") {
				p.Trailers = append(p.Trailers, [2]string{"Grpc-Status", "0"})
			}
		}
	}
	if tp.Chance(1, 12, "h.huge_headers") {
		// a header block (and trailer block) that does not fit one frame: HEADERS + CONTINUATION
		for i := 0; i < 24; i++ {
			hs = append(hs, [2]string{fmt.Sprintf("X-Big-%02d", i), bigValue(int(id)*100+i, 900)})
		}
		if len(p.Trailers) > 0 {
			for i := 0; i < 24; i++ {
				p.Trailers = append(p.Trailers, [2]string{fmt.Sprintf("X-Big-Trailer-%02d", i), bigValue(int(id)*100+50+i, 900)})
			}
		}
		p.Huge = true
	}
	p.TrailerLines = len(p.Trailers) > 1 && tp.Chance(1, 2, "h.trailer_lines")
	p.Hdr = hs
	return p
}

// bigValue: n printable bytes that do not compress to nothing
func bigValue(salt, n int) string {
	b := make([]byte, n)
	x := uint32(salt)*2654435761 + 12345
	for i := range b {
		x = x*1664525 + 1013904223
		b[i] = "abcdefghijklmnopqrstuvwxyzABCDEFGHIJKLMNOPQRSTUVWXYZ0123456789~!#$%&*+"[x>>24%70]
	}
	return string(b)
}

// runResp: valid requests on 1-4 concurrent streams, generated handlers, a client with small and
// changing windows. C38 judges what each stream carried, C34 how it was paced.
func runResp(focus string) func(s *simrt.Sim) {
	return func(s *simrt.Sim) {
		initCounters()
		tp := s.Tape
		faults := simrt.Mode() != "nofault"
		s.SetSticky([]int{2, 4, 10}[tp.Draw(3, "sched.strategy")])
		s.SetSelectOrder(tp.Draw(3, "selectorder"))
		s.SetSelectYield(tp.Chance(1, 2, "selectyield"))
		s.SetMapOrder(tp.Draw(3, "maporder"))
		e := newH2(s, focus)
		if faults {
			e.net.Seg = []int{0, 3, 8}[tp.Draw(3, "net.seg")]
		}
		if focus == "C34" {
			s.Invariant(e.queuedForClosedInvariant)
		}
		p0 := h2Panics()
		iw := []uint32{65535, 65535, 1 << 20, 1000, 100, 1, 0}[tp.Draw(7, "cli.init_window")]
		mf := []uint32{16384, 16384, 32768, 1 << 20}[tp.Draw(4, "cli.max_frame")]
		// (the client's own SETTINGS go out with the preface, before any stream exists)
		if iw < 65535 {
			// a tiny window turns every byte into a frame: keep the frame count per run bounded
			e.maxBody = 64 + 150*int(iw)
			if iw == 0 {
				e.maxBody = 100000
			}
		}
		e.wuPolicy = tp.Draw(3, "cli.wu_policy")
		e.wuBatch = int64([]int{1, 1000, 30000}[tp.Draw(3, "cli.wu_batch")])
		if iw < 1000 && e.wuPolicy == 1 {
			e.wuBatch = 1
		}
		e.start(&Server{}, []xh2.Setting{{ID: xh2.SettingInitialWindowSize, Val: iw}, {ID: xh2.SettingMaxFrameSize, Val: mf}})
		nstreams := tp.Range(1, 4, "n_streams")
		var ids []uint32
		for i := 0; i < nstreams; i++ {
			id := uint32(1 + 2*i)
			method := []string{"GET", "GET", "HEAD", "POST"}[tp.Draw(4, "method")]
			p := e.genHandler(id, method)
			if method == "POST" {
				p.ReqBody = patterned(0, tp.Draw(3000, "req_body"), 7)
			}
			e.handlers[id] = p
			e.byPath[p.Path] = p
			ids = append(ids, id)
		}
		for _, id := range ids {
			p := e.handlers[id]
			if err := e.openStream(id, reqFields(p.Method, p.Path), p.Method != "POST"); err != nil {
				break
			}
			if p.Method == "POST" {
				e.writeData(id, p.ReqBody, 0, true)
			}
			if faults && tp.Chance(1, 3, "settings_change") {
				// change the initial window in the middle of things (up or down, windows may go negative)
				nv := []uint32{0, 10, 5000, 65535, 1 << 18}[tp.Draw(5, "settings_change_val")]
				e.s.Fault("settings_initial_window_change")
				e.writeSettings(xh2.Setting{ID: xh2.SettingInitialWindowSize, Val: nv})
			}
			if tp.Chance(1, 2, "gap") {
				simrt.Sleep(time.Duration(tp.Draw(20, "gap_ms")) * time.Millisecond)
			}
		}
		// every response must complete: the client keeps granting window
		done := func() bool {
			if e.readerDone {
				return true
			}
			for _, id := range ids {
				fs := e.framesOf(id)
				if e.resetDone[id] {
					continue
				}
				if len(fs) == 0 || !(fs[len(fs)-1].EndStream || fs[len(fs)-1].Type == xh2.FrameRSTStream) {
					return false
				}
			}
			return true
		}
		if faults && focus == "C38" && tp.Chance(1, 4, "graceful_shutdown") {
			// the server process starts a graceful shutdown (reload, exit) while responses are under
			// way: it announces GOAWAY(NO_ERROR) and must still finish the streams it has accepted
			after := tp.Draw(6, "graceful_shutdown.after_frames")
			simrt.GoNamed("operator.shutdown", nil, func() {
				// (only once the server has answered on every stream: a stream it has not seen
				// before the GOAWAY is legitimately ignored and would be retried elsewhere)
				simrt.WaitUntil(func() bool {
					if e.readerDone {
						return true
					}
					n := 0
					for _, id := range ids {
						if len(e.framesOf(id)) == 0 {
							return false
						}
						n += len(e.framesOf(id))
					}
					return n >= len(ids)+after
				})
				if !e.readerDone {
					e.s.Fault("graceful_shutdown")
					close(e.closeNotifyCh)
				}
			})
		}
		if faults && tp.Chance(1, 3, "client_reset") {
			// the client cancels one stream in mid-response
			victim := e.handlers[ids[tp.Draw(len(ids), "client_reset.which")]]
			after := tp.Draw(4, "client_reset.after_frames")
			victim.ClientReset = true
			simrt.GoNamed("h2client.resetter", int(victim.ID), func() {
				simrt.WaitUntil(func() bool { return len(e.framesOf(victim.ID)) >= after || e.readerDone })
				if e.readerDone || e.streamOver(victim.ID) {
					victim.ClientReset = e.streamOver(victim.ID) && false
					return
				}
				e.s.Fault("client_rst_stream")
				e.resetStream(victim.ID)
			})
		}
		// stalled = nothing at all arrived for a long simulated while although the client kept granting
		const quiet = 30 * time.Second
		lastN, lastAt, iter := len(e.recv), s.Now(), 0
		for !done() && s.Now()-lastAt < quiet {
			simrt.Sleep(20 * time.Millisecond)
			iter++
			if len(e.recv) != lastN {
				lastN, lastAt = len(e.recv), s.Now()
			}
			// whatever the policy, nothing stays owed for long: a window of 0 or 1 needs it
			e.flushOwed(ids)
			if e.sentInitWin < 4096 && iter%4 == 0 {
				// tiny windows were exercised; open up so that the run ends in bounded steps
				e.s.Fault("window_opened_late")
				e.writeSettings(xh2.Setting{ID: xh2.SettingInitialWindowSize, Val: 65535})
			}
		}
		stalled := !done()
		e.finish(50 * time.Millisecond)
		if s.Failed() {
			return
		}
		if n := h2Panics() - p0; n > 0 {
			s.FailK(focus+".panic", "server-panic", "%d panic(s) recovered inside the HTTP/2 server", n)
			return
		}
		if e.readErr != nil && strings.Contains(e.readErr.Error(), "does not decode") {
			s.FailK(focus+".hpack", "header-block-undecodable", "%v", e.readErr)
			return
		}
		if g := e.goAway(); g != nil && g.Code != xh2.ErrCodeNo {
			s.FailK(focus+".goaway", "goaway-on-valid-traffic", "the server answered valid traffic with GOAWAY %v; frames: %s", g.Code, e.tail(8))
			return
		}
		if stalled {
			s.FailK(focus+".liveness", "response-stalled", "no frame for %v of simulated time although the client kept granting window, and not every response completed; frames: %s", quiet, e.tail(10))
			return
		}
		for _, id := range ids {
			if e.resetDone[id] {
				s.Probe("h2_client_reset_checked")
				continue // cancelled by the client: only "nothing after the reset" applies (checked on arrival)
			}
			e.checkStream(focus, e.handlers[id])
			if s.Failed() {
				return
			}
		}
	}
}

func (e *h2eng) flushOwed(ids []uint32) {
	for _, id := range ids {
		fs := e.framesOf(id)
		ended := len(fs) > 0 && (fs[len(fs)-1].EndStream || fs[len(fs)-1].Type == xh2.FrameRSTStream)
		if n := e.owedStream[id]; n > 0 && !ended {
			e.owedStream[id] = 0
			e.writeWindowUpdate(id, uint32(n))
		}
	}
	if n := e.owedConn; n > 0 {
		e.owedConn = 0
		e.writeWindowUpdate(0, uint32(n))
	}
}

// checkStream: C38 (and the order / after-end clauses of C34) for one stream.
func (e *h2eng) checkStream(focus string, p *hplan) {
	s := e.s
	fs := e.framesOf(p.ID)
	s.Checked(1)
	if !p.Done {
		s.FailK(focus+".handler", "handler-did-not-finish", "stream %d: the handler never finished (write error %v)", p.ID, p.WriteErr)
		return
	}
	if p.WriteErr != nil && bodyAllowed(p.Status) && p.Method != "HEAD" {
		s.FailK(focus+".handler", "handler-write-failed", "stream %d: a write of the handler failed on a healthy connection: %v", p.ID, p.WriteErr)
		return
	}
	if p.Method == "POST" && !bytes.Equal(p.GotBody, p.ReqBody) {
		s.FailK(focus+".reqbody", "request-body-altered", "stream %d: handler read %d body bytes, client sent %d", p.ID, len(p.GotBody), len(p.ReqBody))
		return
	}
	if len(fs) == 0 || fs[0].Type != xh2.FrameHeaders {
		s.FailK("C38.shape", "response-does-not-start-with-headers", "stream %d: frames %v", p.ID, fs)
		return
	}
	// shape: HEADERS DATA* [HEADERS], END_STREAM exactly once, on the last frame, nothing after
	ends := 0
	var body []byte
	var trailer *rframe
	for i, f := range fs {
		if f.Type == xh2.FrameRSTStream {
			s.FailK("C38.shape", "stream-reset-by-server", "stream %d: server reset a stream whose handler completed normally: %v", p.ID, f)
			return
		}
		if ends > 0 {
			s.FailK("C34.afterend", "frame-after-end-stream", "stream %d: %v arrived after END_STREAM", p.ID, f)
			return
		}
		if f.EndStream {
			ends++
		}
		if i == 0 {
			continue
		}
		if f.Type == xh2.FrameData {
			if trailer != nil {
				s.FailK("C38.shape", "data-after-trailers", "stream %d: DATA after the trailer block", p.ID)
				return
			}
			body = append(body, f.Data...)
		} else {
			if trailer != nil {
				s.FailK("C38.shape", "second-trailer-block", "stream %d: more than two header blocks", p.ID)
				return
			}
			ff := f
			trailer = &ff
		}
	}
	if ends != 1 {
		s.FailK("C38.endstream", "end-stream-not-exactly-once", "stream %d: END_STREAM seen %d times; frames %v", p.ID, ends, fs)
		return
	}
	// status + header fields
	h := fs[0].Fields
	if len(h) == 0 || h[0].Name != ":status" || h[0].Value != strconv.Itoa(p.Status) {
		s.FailK("C38.status", "status-differs", "stream %d: handler status %d, header block %s", p.ID, p.Status, fieldsStr(h))
		return
	}
	got := map[string][]string{}
	for i, f := range h {
		if f.Name != strings.ToLower(f.Name) {
			s.FailK("C38.fields", "field-name-not-lowercase", "stream %d: field name %q", p.ID, f.Name)
			return
		}
		if strings.HasPrefix(f.Name, ":") && i > 0 {
			s.FailK("C38.fields", "second-pseudo-header", "stream %d: %s", p.ID, fieldsStr(h))
			return
		}
		if connSpecific[f.Name] && !(f.Name == "transfer-encoding" && f.Value == "trailers") {
			s.FailK("C38.fields", "connection-specific-field-sent", "stream %d: the response carries %s: %s (RFC 7540 8.1.2.2 forbids connection-specific fields)", p.ID, f.Name, f.Value)
			return
		}
		got[f.Name] = append(got[f.Name], f.Value)
	}
	want := map[string][]string{}
	for _, kv := range p.Hdr {
		k := strings.ToLower(kv[0])
		if connSpecific[k] {
			continue
		}
		want[k] = append(want[k], kv[1])
	}
	hasBody := bodyAllowed(p.Status) && p.Method != "HEAD"
	for k, vs := range want {
		if k == "content-length" && !bodyAllowed(p.Status) {
			continue
		}
		if strings.Join(got[k], "\x00") != strings.Join(vs, "\x00") {
			s.FailK("C38.fields", "handler-field-altered", "stream %d: handler set %s: %q, the response carries %q", p.ID, k, vs, got[k])
			return
		}
	}
	for k, vs := range got {
		if _, ok := want[k]; ok || k == ":status" || k == "date" {
			continue
		}
		if k == "content-type" && bodyAllowed(p.Status) {
			continue // sniffed
		}
		if k == "content-length" {
			// added by the server: must be the true length
			if n, err := strconv.Atoi(vs[0]); err != nil || len(vs) != 1 || (n != len(p.Wrote) && bodyAllowed(p.Status)) {
				s.FailK("C38.fields", "server-content-length-wrong", "stream %d: content-length %q added by the server, handler wrote %d bytes", p.ID, vs, len(p.Wrote))
				return
			}
			continue
		}
		if k == "trailer" && len(p.Trailers) > 0 && !p.TrailerPrefixStyle {
			continue
		}
		s.FailK("C38.fields", "field-not-set-by-handler", "stream %d: the response carries %s: %q which the handler did not set", p.ID, k, vs)
		return
	}
	// body
	if !hasBody {
		if len(body) > 0 {
			s.FailK("C38.body", "body-on-bodyless-response", "stream %d: %s / status %d response carries %d body bytes", p.ID, p.Method, p.Status, len(body))
			return
		}
	} else if !bytes.Equal(body, p.Wrote) {
		s.FailK("C38.body", "body-differs", "stream %d: handler wrote %d bytes, DATA frames carry %d (first difference at %d)", p.ID, len(p.Wrote), len(body), firstDiff(body, p.Wrote))
		return
	}
	// trailers
	if len(p.Trailers) > 0 && hasBody {
		if trailer == nil {
			s.FailK("C38.trailers", "trailers-missing", "stream %d: handler declared trailers %v, none arrived; frames %v", p.ID, p.Trailers, fs)
			return
		}
		tg := map[string]string{}
		for _, f := range trailer.Fields {
			if strings.HasPrefix(f.Name, ":") {
				s.FailK("C38.trailers", "pseudo-header-in-trailers", "stream %d: %s", p.ID, fieldsStr(trailer.Fields))
				return
			}
			tg[f.Name] = f.Value
		}
		for _, t := range p.Trailers {
			if tg[strings.ToLower(t[0])] != t[1] {
				s.FailK("C38.trailers", "trailer-altered", "stream %d: trailer %s: %q arrived as %q", p.ID, t[0], t[1], tg[strings.ToLower(t[0])])
				return
			}
		}
		if !trailer.EndStream {
			s.FailK("C38.trailers", "trailers-without-end-stream", "stream %d", p.ID)
			return
		}
		s.Probe("h2_trailers_checked")
	} else if trailer != nil {
		s.FailK("C38.trailers", "unexpected-trailer-block", "stream %d: %s", p.ID, fieldsStr(trailer.Fields))
		return
	}
	s.Probe("h2_response_checked")
	if len(p.Wrote) > 65535 {
		s.Probe("h2_large_body")
	}
}

func firstDiff(a, b []byte) int {
	n := len(a)
	if len(b) < n {
		n = len(b)
	}
	for i := 0; i < n; i++ {
		if a[i] != b[i] {
			return i
		}
	}
	return n
}

var _ = xhpack.HeaderField{}

var errQueuedForClosed = fmt.Errorf("C34.afterreset: a frame other than RST_STREAM is queued for sending on a stream the server has already closed")

// queuedForClosedInvariant (white box, every quiescent point): a frame that waits in the
// write scheduler without a stream attached is written unconditionally; if it addresses
// a stream that is closed by now it will go out after the stream ended or was reset.
// On the wire such a frame cannot be told from one that was started just before the
// close was processed, hence the look inside.
func (e *h2eng) queuedForClosedInvariant() error {
	sc := e.sc
	if sc == nil {
		return nil
	}
	bad := func(q []frameWriteMsg) bool {
		for _, wm := range q {
			if wm.stream != nil {
				continue // startFrameWrite drops these when their stream is closed and reset
			}
			var id uint32
			switch w := wm.write.(type) {
			case writeWindowUpdate:
				id = w.streamID
			case *writeData:
				id = w.streamID
			case *writeResHeaders:
				id = w.streamID
			case write100ContinueHeadersFrame:
				id = w.streamID
			}
			if id == 0 || id > sc.maxStreamID {
				continue
			}
			if _, open := sc.streams[id]; !open {
				return true
			}
		}
		return false
	}
	if bad(sc.writeSched.zero.s) {
		return errQueuedForClosed
	}
	for _, q := range sc.writeSched.sq {
		if bad(q.s) {
			return errQueuedForClosed
		}
	}
	return nil
}
