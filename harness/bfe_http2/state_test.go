//go:build verif
// +build verif

package bfe_http2

import (
	"fmt"
	"sort"
	"time"

	xh2 "golang.org/x/net/http2"
	xhpack "golang.org/x/net/http2/hpack"

	"verif/simrt"
)

// C35 / C36: seeded client frame sequences against the stream state machine. A prefix of legal
// operations (open streams with and without END_STREAM and priority, DATA, trailers, PRIORITY on any
// id, RST_STREAM, handler completion as a scheduled event) is followed, in C35 runs, by one frame the
// RFC forbids; the oracle says how it must be refused. C36 runs consist of priority traffic only and
// judge the dependency tree after every frame.

type cstream struct {
	id          uint32
	clientEnded bool
	reset       bool
	released    bool
	counted     bool
	plan        *hplan
}

type stateRun struct {
	e       *h2eng
	streams []*cstream
	nextID  uint32
	maxConc int
	running int // handlers running now
	maxSeen int
	barrier int
	acked   map[int]bool
}

func (r *stateRun) open(end bool, prio *xh2.PriorityParam, extra ...xhpack.HeaderField) *cstream {
	e := r.e
	id := r.nextID
	r.nextID += 2
	cs := &cstream{id: id, clientEnded: end}
	p := &hplan{ID: id, Path: fmt.Sprintf("/t%d", id), Method: "POST", Status: 200, Writes: []hwrite{{N: 5}}}
	if end {
		p.Method = "GET"
	}
	p.Read = 0
	p.HoldUntil = func() bool { return cs.released || e.readerDone }
	// a handler counts from its start until it returns or its stream is cancelled by the client
	// or reset by the server (the goroutine of such a stream may linger; the limit is about streams)
	p.OnStart = func() {
		if cs.reset {
			return
		}
		// a stream the server itself has closed by now (it answered an illegal frame with
		// RST_STREAM) does not count either, although its handler may still be returning
		if sc := e.sc; sc != nil {
			for _, o := range r.streams {
				if _, open := sc.streams[o.id]; o.counted && !open {
					o.counted = false
					r.running--
				}
			}
			if _, open := sc.streams[cs.id]; !open {
				return
			}
		}
		cs.counted = true
		r.running++
		if r.running > r.maxSeen {
			r.maxSeen = r.running
		}
	}
	p.OnDone = func() {
		if cs.counted {
			cs.counted = false
			r.running--
		}
	}
	cs.plan = p
	e.handlers[id] = p
	e.byPath[p.Path] = p
	r.streams = append(r.streams, cs)
	blk := e.encode(reqFields(p.Method, p.Path, extra...))
	e.streamWin[id] = e.initWin
	e.srvStreamWin[id] = e.srvInitWin
	e.wmu.Lock()
	e.s.Note("op", fmt.Sprintf("client HEADERS s%d end=%v prio=%v", id, end, prio))
	hp := xh2.HeadersFrameParam{StreamID: id, BlockFragment: blk, EndStream: end, EndHeaders: true}
	if prio != nil {
		hp.Priority = *prio
	}
	e.fr.WriteHeaders(hp)
	e.wmu.Unlock()
	return cs
}

// sync: a PING round trip; afterwards the server has processed every frame sent before.
func (r *stateRun) sync() bool {
	e := r.e
	r.barrier++
	n := r.barrier
	e.wmu.Lock()
	e.fr.WritePing(false, [8]byte{'s', 'y', 'n', 'c', byte(n >> 24), byte(n >> 16), byte(n >> 8), byte(n)})
	e.wmu.Unlock()
	simrt.WaitUntil(func() bool { return e.syncSeen >= n || e.readerDone })
	return e.syncSeen >= n
}

func (r *stateRun) pick(pred func(*cstream) bool) *cstream {
	var c []*cstream
	for _, s := range r.streams {
		if pred(s) {
			c = append(c, s)
		}
	}
	if len(c) == 0 {
		return nil
	}
	return c[r.e.tp.Draw(len(c), "pick_stream")]
}

func (e *h2eng) raw(t xh2.FrameType, flags xh2.Flags, id uint32, payload []byte) {
	e.wmu.Lock()
	e.s.Note("op", fmt.Sprintf("client raw frame type=%v flags=%x s%d len=%d", t, flags, id, len(payload)))
	e.fr.WriteRawFrame(t, flags, id, payload)
	e.wmu.Unlock()
}

func runState(focus string) func(s *simrt.Sim) {
	return func(s *simrt.Sim) {
		initCounters()
		tp := s.Tape
		faults := simrt.Mode() != "nofault"
		s.SetSticky([]int{2, 4, 10}[tp.Draw(3, "sched.strategy")])
		s.SetSelectOrder(tp.Draw(3, "selectorder"))
		s.SetSelectYield(tp.Chance(1, 2, "selectyield"))
		s.SetMapOrder(tp.Draw(3, "maporder"))
		e := newH2(s, focus)
		if faults {
			e.net.Seg = []int{0, 0, 5}[tp.Draw(3, "net.seg")]
		}
		p0 := h2Panics()
		maxConc := []int{2, 3, 100}[tp.Draw(3, "srv.max_streams")]
		e.start(&Server{MaxConcurrentStreams: uint32(maxConc)}, nil)
		r := &stateRun{e: e, nextID: 1, maxConc: maxConc}
		if focus == "C36" {
			s.Invariant(e.priorityTreeInvariant)
		}
		simrt.WaitUntil(func() bool { return e.gotSrvSettings || e.readerDone })
		openCount := func() int {
			n := 0
			for _, cs := range r.streams {
				if !cs.reset && !(e.streamOver(cs.id) && cs.clientEnded) {
					n++ // the server may still count it: the client only knows a stream is gone once it saw the end
				}
			}
			return n
		}
		nops := tp.Range(2, 14, "n_ops")
		if focus == "C36" {
			nops = tp.Range(6, 24, "n_ops36") // dependency chains need a few streams, closes and re-prioritisations
		}
		for i := 0; i < nops && !e.readerDone; i++ {
			var op int
			if focus == "C36" {
				op = []int{0, 0, 3, 3, 3, 3, 4, 5}[tp.Draw(8, "op36")]
			} else {
				op = tp.Draw(9, "op")
			}
			switch op {
			case 0: // open a stream
				if openCount() >= maxConc {
					continue
				}
				var prio *xh2.PriorityParam
				if tp.Chance(1, 2, "open.prio") || focus == "C36" {
					prio = r.genPrio(r.nextID)
				}
				r.open(tp.Chance(1, 2, "open.end"), prio)
			case 1: // DATA on a stream the client has not ended
				if cs := r.pick(func(c *cstream) bool { return !c.clientEnded && !c.reset }); cs != nil {
					end := tp.Chance(1, 2, "data.end")
					e.writeData(cs.id, patterned(0, tp.Draw(300, "data.len"), 1), 0, end)
					e.srvConnWin -= 300
					cs.clientEnded = cs.clientEnded || end
				}
			case 2: // trailers
				if cs := r.pick(func(c *cstream) bool { return !c.clientEnded && !c.reset }); cs != nil {
					blk := e.encode([]xhpack.HeaderField{{Name: "x-trailer", Value: "t"}})
					e.wmu.Lock()
					e.s.Note("op", fmt.Sprintf("client trailers s%d", cs.id))
					e.fr.WriteHeaders(xh2.HeadersFrameParam{StreamID: cs.id, BlockFragment: blk, EndStream: true, EndHeaders: true})
					e.wmu.Unlock()
					cs.clientEnded = true
				}
			case 3: // PRIORITY on any id: open, closed, idle, 0-dependency, self-dependency, exclusive
				id := uint32(1 + 2*tp.Draw(int(r.nextID/2)+2, "prio.stream"))
				pp := r.genPrio(id)
				e.wmu.Lock()
				e.s.Note("op", fmt.Sprintf("client PRIORITY s%d dep=%d excl=%v w=%d", id, pp.StreamDep, pp.Exclusive, pp.Weight))
				e.fr.WritePriority(id, *pp)
				e.wmu.Unlock()
			case 4: // a handler completes
				if cs := r.pick(func(c *cstream) bool { return !c.released }); cs != nil {
					e.s.Note("op", fmt.Sprintf("handler of s%d released", cs.id))
					cs.released = true
					if !cs.clientEnded {
						// the request body is still open: end it so that the stream can close
						e.writeData(cs.id, nil, 0, true)
						cs.clientEnded = true
					}
				}
			case 5: // the client cancels a stream
				// (also streams whose handler was just released: a cancel that races with completion)
				if cs := r.pick(func(c *cstream) bool { return !c.reset && !e.streamOver(c.id) }); cs != nil {
					e.wmu.Lock()
					e.s.Note("op", fmt.Sprintf("client RST_STREAM s%d", cs.id))
					e.fr.WriteRSTStream(cs.id, xh2.ErrCodeCancel)
					e.wmu.Unlock()
					cs.reset, cs.released, cs.clientEnded = true, true, true
					if cs.counted {
						cs.counted = false
						r.running--
					}
				}
			case 8: // the handler completes and the client cancels the same stream at the same moment
				if cs := r.pick(func(c *cstream) bool { return !c.released && !c.reset }); cs != nil {
					e.s.Note("op", fmt.Sprintf("handler of s%d released, client RST_STREAM s%d right behind", cs.id, cs.id))
					e.s.Fault("cancel_races_completion")
					cs.released = true
					if !cs.clientEnded {
						e.writeData(cs.id, nil, 0, true)
						cs.clientEnded = true
					}
					if tp.Chance(1, 2, "race.yield") {
						simrt.Yield()
					}
					e.wmu.Lock()
					e.fr.WriteRSTStream(cs.id, xh2.ErrCodeCancel)
					e.wmu.Unlock()
					cs.reset = true
					if cs.counted {
						cs.counted = false
						r.running--
					}
				}
			case 6:
				e.wmu.Lock()
				e.fr.WritePing(false, [8]byte{1, 2, 3})
				e.wmu.Unlock()
			case 7:
				simrt.Sleep(time.Duration(1+tp.Draw(20, "pause_ms")) * time.Millisecond)
			}
			if focus == "C36" || tp.Chance(1, 3, "sync") {
				r.sync() // the server has seen everything so far (and the tree is judged here in C36)
			}
		}
		if s.Failed() {
			return
		}
		legalOK := r.sync()
		if !legalOK && focus == "C35" {
			s.FailK("C35.legal", "connection-lost-on-legal-traffic", "a sequence of legal frames ended the connection: %v; frames: %s", e.readErr, e.tail(8))
			return
		}
		if r.maxSeen > maxConc {
			s.FailK("C35.concurrency", "more-handlers-than-advertised-limit", "%d handlers ran at once, SETTINGS_MAX_CONCURRENT_STREAMS is %d", r.maxSeen, maxConc)
			return
		}
		if focus == "C35" && legalOK {
			r.illegal()
		}
		// release everything and finish
		for _, cs := range r.streams {
			cs.released = true
		}
		e.finish(50 * time.Millisecond)
		if s.Failed() {
			return
		}
		s.Checked(1)
		if n := h2Panics() - p0; n > 0 {
			s.FailK(focus+".panic", "server-panic", "%d panic(s) recovered inside the HTTP/2 server (internal invariant or nil dereference) on this client frame sequence", n)
			return
		}
		if r.maxSeen > maxConc {
			s.FailK("C35.concurrency", "more-handlers-than-advertised-limit", "%d handlers ran at once, SETTINGS_MAX_CONCURRENT_STREAMS is %d", r.maxSeen, maxConc)
			return
		}
		if focus == "C36" {
			s.Probe("h2_priority_run_checked")
		}
	}
}

func (r *stateRun) genPrio(self uint32) *xh2.PriorityParam {
	tp := r.e.tp
	dep := uint32(0)
	switch tp.Draw(5, "prio.dep") {
	case 0:
		dep = 0
	case 1:
		dep = self // a stream depending on itself
	case 2:
		// a chain: depend on the stream opened just before (or, for the oldest, on the newest)
		if self >= 3 {
			dep = self - 2
		} else if r.nextID >= 3 {
			dep = r.nextID - 2
		}
	default:
		dep = uint32(1 + 2*tp.Draw(int(r.nextID/2)+2, "prio.dep_id")) // any id: open, closed or idle
	}
	return &xh2.PriorityParam{StreamDep: dep, Exclusive: tp.Chance(1, 3, "prio.excl"), Weight: uint8(tp.Draw(256, "prio.weight"))}
}

// priorityTreeInvariant (C36): from every stream of the server's stream map, following parent
// pointers ends at a root within as many steps as there can be streams; no stream is its own ancestor.
func (e *h2eng) priorityTreeInvariant() error {
	sc := e.sc
	if sc == nil {
		return nil
	}
	ids := make([]int, 0, len(sc.streams))
	for id := range sc.streams {
		ids = append(ids, int(id))
	}
	sort.Ints(ids)
	for _, id := range ids {
		st := sc.streams[uint32(id)]
		steps := 0
		for p := st.parent; p != nil; p = p.parent {
			if p == st {
				return errCycle
			}
			steps++
			if steps > 4096 {
				return errCycle
			}
		}
	}
	return nil
}

var errCycle = fmt.Errorf("C36.acyclic: a stream is its own ancestor in the dependency tree (parent pointers form a cycle)")

// illegal sends one frame the stream rules forbid and checks that it is refused.
func (r *stateRun) illegal() {
	e := r.e
	s := e.s
	tp := e.tp
	kind := tp.Draw(12, "illegal.kind")
	mark := len(e.recv)
	var target uint32
	var tpath string
	expectConn := false // must be a connection error (GOAWAY / close)
	reqCreating := false
	name := ""
	badReq := func(n string, fields []xhpack.HeaderField, end bool) {
		name = n
		id := r.nextID
		r.nextID += 2
		target = id
		reqCreating = true
		blk := e.encode(fields)
		e.streamWin[id] = e.initWin
		e.wmu.Lock()
		e.s.Note("op", fmt.Sprintf("client ILLEGAL %s: HEADERS s%d %s", n, id, fieldsStr(fields)))
		e.fr.WriteHeaders(xh2.HeadersFrameParam{StreamID: id, BlockFragment: blk, EndStream: end, EndHeaders: true})
		e.wmu.Unlock()
	}
	path := fmt.Sprintf("/bad%d", r.nextID)
	tpath = path
	e.byPath[path] = &hplan{ID: r.nextID, Path: path, Status: 200}
	switch kind {
	case 0:
		name = "HEADERS with an even stream id"
		expectConn = true
		blk := e.encode(reqFields("GET", path))
		target = r.nextID + 1
		reqCreating = true
		e.wmu.Lock()
		e.s.Note("op", "client ILLEGAL "+name)
		e.fr.WriteHeaders(xh2.HeadersFrameParam{StreamID: target, BlockFragment: blk, EndStream: true, EndHeaders: true})
		e.wmu.Unlock()
	case 1:
		name = "HEADERS with a stream id below one already used"
		if r.nextID < 5 {
			r.open(true, nil)
			r.open(true, nil)
			r.sync()
			mark = len(e.recv)
		}
		// ids go up by 2: skip one on purpose, then come back to it
		skipped := r.nextID
		r.nextID += 2
		r.open(true, nil)
		r.sync()
		mark = len(e.recv)
		expectConn = true
		target = skipped
		reqCreating = true
		blk := e.encode(reqFields("GET", path))
		e.wmu.Lock()
		e.s.Note("op", fmt.Sprintf("client ILLEGAL %s (s%d)", name, skipped))
		e.fr.WriteHeaders(xh2.HeadersFrameParam{StreamID: skipped, BlockFragment: blk, EndStream: true, EndHeaders: true})
		e.wmu.Unlock()
	case 2:
		name = "DATA on an idle stream"
		target = r.nextID + 4
		e.writeData(target, []byte("x"), 0, false)
	case 3:
		name = "DATA on a half-closed (remote) stream"
		cs := r.pick(func(c *cstream) bool { return c.clientEnded && !c.released && !c.reset })
		if cs == nil {
			cs = r.open(true, nil)
			if !r.sync() {
				return
			}
			mark = len(e.recv)
		}
		target = cs.id
		e.writeData(cs.id, []byte("late"), 0, false)
	case 4:
		name = "DATA on a closed stream"
		cs := r.open(true, nil)
		cs.released = true
		simrt.WaitUntil(func() bool { return e.streamOver(cs.id) })
		r.sync()
		mark = len(e.recv)
		target = cs.id
		e.writeData(cs.id, []byte("late"), 0, true)
	case 5:
		name = "second HEADERS without END_STREAM on an open stream (trailers must end the stream)"
		cs := r.pick(func(c *cstream) bool { return !c.clientEnded && !c.reset })
		if cs == nil {
			cs = r.open(false, nil)
		}
		target = cs.id
		blk := e.encode([]xhpack.HeaderField{{Name: "x-trailer", Value: "t"}})
		e.wmu.Lock()
		e.s.Note("op", fmt.Sprintf("client ILLEGAL %s (s%d)", name, cs.id))
		e.fr.WriteHeaders(xh2.HeadersFrameParam{StreamID: cs.id, BlockFragment: blk, EndStream: false, EndHeaders: true})
		e.wmu.Unlock()
		cs.clientEnded = true
	case 6:
		name = "HEADERS on a half-closed (remote) stream"
		cs := r.pick(func(c *cstream) bool { return c.clientEnded && !c.released && !c.reset })
		if cs == nil {
			cs = r.open(true, nil)
			if !r.sync() {
				return
			}
			mark = len(e.recv)
		}
		target = cs.id
		blk := e.encode([]xhpack.HeaderField{{Name: "x-trailer", Value: "t"}})
		e.wmu.Lock()
		e.s.Note("op", fmt.Sprintf("client ILLEGAL %s (s%d)", name, cs.id))
		e.fr.WriteHeaders(xh2.HeadersFrameParam{StreamID: cs.id, BlockFragment: blk, EndStream: true, EndHeaders: true})
		e.wmu.Unlock()
	case 7:
		// more streams than the advertised limit, handlers held
		name = "HEADERS beyond SETTINGS_MAX_CONCURRENT_STREAMS"
		if r.maxConc > 3 {
			return
		}
		// streams whose handler was released drain first; what remains open for sure are the held ones
		for _, c := range r.streams {
			if c.released && !c.clientEnded && !c.reset {
				e.writeData(c.id, nil, 0, true)
				c.clientEnded = true
			}
		}
		simrt.WaitUntil(func() bool {
			for _, c := range r.streams {
				if c.released && !c.reset && !e.streamOver(c.id) {
					return false
				}
			}
			return true
		})
		for {
			n := 0
			for _, cs := range r.streams {
				if !cs.released && !cs.reset {
					n++
				}
			}
			if n >= r.maxConc {
				break
			}
			r.open(true, nil)
		}
		if !r.sync() {
			s.FailK("C35.legal", "connection-lost-on-legal-traffic", "opening streams up to the advertised limit ended the connection: %v", e.readErr)
			return
		}
		mark = len(e.recv)
		badReq(name, reqFields("GET", path), true)
	case 8:
		variants := [][]xhpack.HeaderField{
			{{Name: ":scheme", Value: "https"}, {Name: ":authority", Value: "h.example"}, {Name: ":path", Value: path}},                         // no :method
			{{Name: ":method", Value: "GET"}, {Name: ":scheme", Value: "https"}, {Name: ":authority", Value: "h.example"}},                      // no :path
			{{Name: ":method", Value: "GET"}, {Name: ":scheme", Value: "https"}, {Name: ":path", Value: path}, {Name: ":path", Value: path}},    // duplicate :path
			{{Name: ":method", Value: "GET"}, {Name: ":scheme", Value: "https"}, {Name: "x-first", Value: "1"}, {Name: ":path", Value: path}},   // pseudo after regular
			{{Name: ":method", Value: "GET"}, {Name: ":scheme", Value: "https"}, {Name: ":path", Value: path}, {Name: ":foo", Value: "bar"}},    // unknown pseudo
			{{Name: ":method", Value: "GET"}, {Name: ":scheme", Value: "https"}, {Name: ":path", Value: path}, {Name: ":status", Value: "200"}}, // response pseudo
			{{Name: ":method", Value: "GET"}, {Name: ":scheme", Value: "https"}, {Name: ":path", Value: path}, {Name: "X-Upper", Value: "1"}},   // upper-case name
			{{Name: ":method", Value: "GET"}, {Name: ":scheme", Value: "https"}, {Name: ":path", Value: ""}},                                    // empty :path
		}
		v := tp.Draw(len(variants), "illegal.pseudo")
		badReq(fmt.Sprintf("invalid pseudo-header set #%d", v), variants[v], true)
	case 9:
		variants := []xhpack.HeaderField{{Name: "connection", Value: "keep-alive"}, {Name: "keep-alive", Value: "timeout=5"}, {Name: "proxy-connection", Value: "keep-alive"},
			{Name: "transfer-encoding", Value: "chunked"}, {Name: "upgrade", Value: "websocket"}, {Name: "te", Value: "gzip"}}
		v := tp.Draw(len(variants), "illegal.connhdr")
		badReq("connection-specific header "+variants[v].Name, reqFields("GET", path, variants[v]), true)
	case 10:
		variants := [][]xhpack.HeaderField{
			reqFields("GET", path, xhpack.HeaderField{Name: "x-inj", Value: "a\r\nx-evil: 1"}),
			reqFields("GET", path, xhpack.HeaderField{Name: "x-nul", Value: "a\x00b"}),
			{{Name: ":method", Value: "GET"}, {Name: ":scheme", Value: "https"}, {Name: ":authority", Value: "h.example\r\nx-evil: 1"}, {Name: ":path", Value: path}},
			{{Name: ":method", Value: "GET " + path + " HTTP/1.1\r\nHost: evil\r\n\r\nGET"}, {Name: ":scheme", Value: "https"}, {Name: ":authority", Value: "h.example"}, {Name: ":path", Value: path}},
			reqFields("GET", path, xhpack.HeaderField{Name: "x bad name", Value: "1"}),
			reqFields("GET", path+"\r\nx-evil: 1"),
		}
		v := tp.Draw(len(variants), "illegal.inject")
		badReq(fmt.Sprintf("control bytes in a header field #%d", v), variants[v], true)
	case 11:
		name = "PUSH_PROMISE from the client"
		blk := e.encode(reqFields("GET", path))
		target = 0
		e.raw(xh2.FramePushPromise, xh2.FlagPushPromiseEndHeaders, 1, append([]byte{0, 0, 0, 2}, blk...))
	}
	// observe
	synced := r.sync()
	simrt.Sleep(100 * time.Millisecond)
	s.Checked(1)
	after := e.recv[mark:]
	var goaway, rst *rframe
	status := ""
	for i := range after {
		f := &after[i]
		switch {
		case f.Type == xh2.FrameGoAway && goaway == nil:
			goaway = f
		case f.Type == xh2.FrameRSTStream && f.Stream == target && rst == nil:
			rst = f
		case f.Type == xh2.FrameHeaders && f.Stream == target && reqCreating && len(f.Fields) > 0 && f.Fields[0].Name == ":status":
			status = f.Fields[0].Value
		}
	}
	closed := e.readerDone
	what := fmt.Sprintf("%s: frames afterwards: %s; connection closed=%v", name, framesStr(after), closed)
	if reqCreating {
		if p := e.byPath[tpath]; p != nil && p.Started {
			s.FailK("C35.refuse", "forbidden-request-reached-handler:"+shortKind(kind), "the request was handed to the handler (method %q host %q uri %q). %s", p.SeenMethod, p.SeenHost, p.SeenURI, what)
			return
		}
		if p := e.byPath["?"+tpath]; p != nil {
			s.FailK("C35.refuse", "forbidden-request-reached-handler:"+shortKind(kind), "the request was handed to the handler under another path. %s", what)
			return
		}
	}
	refusedStream := rst != nil && rst.Code != xh2.ErrCodeNo || (len(status) == 3 && status[0] == '4')
	refusedConn := goaway != nil && goaway.Code != xh2.ErrCodeNo || closed
	if expectConn {
		if !refusedConn {
			s.FailK("C35.refuse", "connection-error-not-raised:"+shortKind(kind), "%s", what)
			return
		}
	} else if !refusedStream && !refusedConn {
		s.FailK("C35.refuse", "forbidden-frame-not-refused:"+shortKind(kind), "%s", what)
		return
	}
	if !expectConn && refusedStream && !refusedConn {
		// a stream error leaves the connection usable
		if !synced {
			s.FailK("C35.continue", "connection-unusable-after-stream-error", "%s", what)
			return
		}
		if kind != 7 {
			// make room first: every held handler finishes, every open request body ends
			for _, c := range r.streams {
				c.released = true
				if !c.clientEnded && !c.reset {
					e.writeData(c.id, nil, 0, true)
					c.clientEnded = true
				}
			}
			simrt.WaitUntil(func() bool {
				for _, c := range r.streams {
					if !c.reset && !e.streamOver(c.id) {
						return false
					}
				}
				return true
			})
			cs := r.open(true, nil)
			cs.released = true
			simrt.WaitUntil(func() bool { return e.streamOver(cs.id) })
			fs := e.framesOf(cs.id)
			if len(fs) == 0 || fs[0].Type != xh2.FrameHeaders || len(fs[0].Fields) == 0 || fs[0].Fields[0].Value != "200" {
				s.FailK("C35.continue", "valid-request-after-stream-error-failed", "after %s a valid request got %v", name, fs)
				return
			}
		}
		s.Probe("h2_stream_error_then_continue")
		if r.maxConc <= 3 && kind != 7 {
			// the refused frame must not have upset the stream accounting: the advertised limit still holds
			for n := 0; n < r.maxConc; n++ {
				r.open(true, nil)
			}
			if !r.sync() {
				s.FailK("C35.legal", "connection-lost-on-legal-traffic", "after %s, opening %d streams (the advertised limit) ended the connection: %v", name, r.maxConc, e.readErr)
				return
			}
			extra := fmt.Sprintf("/extra%d", r.nextID)
			e.byPath[extra] = &hplan{ID: r.nextID, Path: extra, Status: 200}
			blk := e.encode(reqFields("GET", extra))
			id := r.nextID
			r.nextID += 2
			e.streamWin[id] = e.initWin
			e.wmu.Lock()
			e.s.Note("op", fmt.Sprintf("client HEADERS s%d beyond the limit (after a refused frame)", id))
			e.fr.WriteHeaders(xh2.HeadersFrameParam{StreamID: id, BlockFragment: blk, EndStream: true, EndHeaders: true})
			e.wmu.Unlock()
			r.sync()
			simrt.Sleep(50 * time.Millisecond)
			if e.byPath[extra].Started {
				s.FailK("C35.concurrency", "limit-not-enforced-after-refused-frame", "after %s the server ran a request although %d streams (SETTINGS_MAX_CONCURRENT_STREAMS) were already open", name, r.maxConc)
				return
			}
			s.Probe("h2_limit_after_error_checked")
		}
	}
	if refusedConn {
		s.Probe("h2_connection_error")
	}
	s.Probe("h2_illegal_checked")
}

func shortKind(k int) string {
	return []string{"even-id", "id-not-increasing", "data-on-idle", "data-on-half-closed", "data-on-closed", "trailers-without-end", "headers-on-half-closed",
		"max-concurrent", "pseudo-headers", "connection-specific", "control-bytes", "push-promise"}[k]
}

func framesStr(fs []rframe) string {
	s := ""
	for i, f := range fs {
		if i > 0 {
			s += " | "
		}
		s += f.String()
		if i > 8 {
			s += " ..."
			break
		}
	}
	if s == "" {
		return "(none)"
	}
	return s
}
