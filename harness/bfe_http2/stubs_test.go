//go:build verif
// +build verif

package bfe_http2

import "verif/simrt"

func runState(focus string) func(s *simrt.Sim) { return func(s *simrt.Sim) {} }
func runFlood(s *simrt.Sim)                    {}
