//go:build verif
// +build verif

package bfe_http2

import "verif/simrt"

func runFlood(s *simrt.Sim) {}
