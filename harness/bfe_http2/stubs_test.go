//go:build verif
// +build verif

package bfe_http2

import "verif/simrt"

func runInflow(s *simrt.Sim)                      {}
func runState(focus string) func(s *simrt.Sim)    { return func(s *simrt.Sim) {} }
func runFlood(s *simrt.Sim)                       {}
