//go:build verif
// +build verif

package mod_prison

import (
	"encoding/json"
	"fmt"
	"io/ioutil"
	"net"
	"os"
	"path/filepath"
	"testing"
	"time"

	"verif/simrt"

	"github.com/bfenetworks/bfe/bfe_basic"
	"github.com/bfenetworks/bfe/bfe_http"
	"github.com/bfenetworks/bfe/bfe_module"
)

func TestSim(t *testing.T) {
	simrt.Main(t, map[string]simrt.Prop{
		"C53": {Run: runC53},
	})
}

var c53dir string

// reference model of one key under one rule: a set of possible states (a
// request exactly on a window / jail boundary instant may legitimately be seen
// on either side).
type pstate struct {
	hasWin   bool
	winStart int64
	count    int
	jailed   bool
	free     int64
}

type pout struct {
	st   pstate
	deny bool
}

func stepModel(s pstate, t, P, stay int64, thr int) []pout {
	var outs []pout
	proceed := func(s pstate) {
		s.jailed = false
		s.free = 0
		variants := []pstate{s}
		if s.hasWin {
			if t > s.winStart+P {
				n := s
				n.hasWin = false
				variants = []pstate{n}
			} else if t == s.winStart+P {
				n := s
				n.hasWin = false
				variants = append(variants, n)
			}
		}
		for _, v := range variants {
			if !v.hasWin {
				v.hasWin, v.winStart, v.count = true, t, 0
			}
			v.count++
			if v.count > thr {
				j := pstate{jailed: true, free: v.winStart + P + stay}
				outs = append(outs, pout{j, true})
				if t >= j.free {
					// StayPeriod 0 and the request exactly at the end of its window: the jail
					// has zero length, "until it has passed" is already true
					outs = append(outs, pout{pstate{}, false})
				}
			} else {
				outs = append(outs, pout{v, false})
			}
		}
	}
	if s.jailed {
		if t < s.free {
			return []pout{{s, true}}
		}
		if t == s.free {
			outs = append(outs, pout{s, true})
		}
		proceed(s)
		return outs
	}
	proceed(s)
	return outs
}

// C53: once more than Threshold requests of a key arrive within one CheckPeriod
// the key is denied until the end of that period plus StayPeriod; other keys
// are unaffected; requests below the threshold are never denied. Timed request
// histories on the simulator's clock through the real module handler, rule
// table and rule-file loader, with rule reloads in between.
func runC53(s *simrt.Sim) {
	tp := s.Tape
	nofault := simrt.Mode() == "nofault"
	if c53dir == "" {
		d, err := ioutil.TempDir(os.Getenv("SIM_SCRATCH"), "c53")
		if err != nil {
			panic(err)
		}
		c53dir = d
	}
	P := int64([]int{1, 2, 5, 10}[tp.Draw(4, "check_period_s")])
	stay := int64([]int{0, 1, 3, 10}[tp.Draw(4, "stay_period_s")])
	thr := tp.Range(0, 6, "threshold")
	dictSize := 1000
	write := func(ver int) (ProductRuleConf, error) {
		rule := map[string]interface{}{
			"Name": "r1", "Cond": "default_t()",
			"accessSignConf": map[string]interface{}{"UseClientIP": true},
			"action":         map[string]interface{}{"cmd": "CLOSE", "params": []string{}},
			"checkPeriod":    P, "stayPeriod": stay, "threshold": thr, "accessDictSize": dictSize, "prisonDictSize": dictSize,
		}
		data, _ := json.Marshal(map[string]interface{}{"version": fmt.Sprintf("v%d", ver), "config": map[string]interface{}{"prod": []interface{}{rule}}})
		fn := filepath.Join(c53dir, "prison.data")
		if err := ioutil.WriteFile(fn, data, 0644); err != nil {
			panic(err)
		}
		return productRuleConfLoad(fn)
	}
	conf, err := write(0)
	if err != nil {
		s.FailK("C53.load", "documented-rule-rejected", "rule file rejected: %v", err)
		return
	}
	m := NewModulePrison()
	if err := m.productTable.load(conf); err != nil {
		s.FailK("C53.load", "documented-rule-rejected", "rule table load failed: %v", err)
		return
	}
	nkeys := tp.Range(1, 3, "n_keys")
	states := make([][]pstate, nkeys)
	for i := range states {
		states[i] = []pstate{{}}
	}
	start := time.Now()
	n := tp.Range(5, 60, "n_requests")
	gaps := []time.Duration{0, 0, 0, time.Millisecond, 7 * time.Millisecond, 100 * time.Millisecond, 499 * time.Millisecond, 999 * time.Millisecond,
		time.Second, 1001 * time.Millisecond, time.Duration(P) * time.Second, time.Duration(P)*time.Second + time.Millisecond,
		time.Duration(stay) * time.Second, time.Duration(P+stay) * time.Second, time.Duration(P+stay)*time.Second - time.Millisecond, time.Duration(P+stay+1) * time.Second}
	var log []string
	ndeny := 0
	for i := 0; i < n && !s.Failed(); i++ {
		if !nofault && tp.Chance(1, 25, "reload") {
			// the same rule, possibly with other table sizes (always far above the number of
			// keys in play: nothing is evicted, so the state of every key carries over)
			dictSize = []int{1000, 1000, 100, 5000}[tp.Draw(4, "reload.dict_size")]
			c2, err := write(i + 1)
			if err == nil {
				err = m.productTable.load(c2)
			}
			if err != nil {
				s.FailK("C53.load", "reload-rejected", "reload of the same rule failed: %v", err)
				return
			}
			s.Fault("rule_reload")
			log = append(log, "reload")
		}
		g := gaps[tp.Draw(len(gaps), "gap")]
		if g > 0 {
			time.Sleep(g)
			s.Fault("clock_advance")
		}
		k := tp.Draw(nkeys, "key")
		t := int64(time.Since(start))
		hr := &bfe_http.Request{Method: "GET", Header: bfe_http.Header{}, RequestURI: "/"}
		req := bfe_basic.NewRequest(hr, nil, nil, nil, nil)
		req.ClientAddr = &net.TCPAddr{IP: net.IPv4(10, 1, 1, byte(k+1)), Port: 5000}
		req.Route.Product = "prod"
		ret, _ := m.prisonHandler(req)
		deny := ret != bfe_module.BfeHandlerGoOn
		if deny {
			ndeny++
		}
		log = append(log, fmt.Sprintf("t=%v key=%d -> deny=%v", time.Duration(t), k, deny))
		s.Note("op", log[len(log)-1])
		// advance the model of key k; keep the states consistent with the observed verdict
		var next []pstate
		seen := map[pstate]bool{}
		for _, st := range states[k] {
			for _, o := range stepModel(st, t, P*int64(time.Second), stay*int64(time.Second), thr) {
				if o.deny == deny && !seen[o.st] {
					seen[o.st] = true
					next = append(next, o.st)
				}
			}
		}
		s.Checked(1)
		if len(next) == 0 {
			want := stepModel(states[k][0], t, P*int64(time.Second), stay*int64(time.Second), thr)[0].deny
			key := "denied-below-threshold-or-outside-jail"
			if !deny {
				key = "admitted-while-jailed-or-over-threshold"
			}
			lo := len(log) - 25
			if lo < 0 {
				lo = 0
			}
			s.FailK("C53.verdict", key, "CheckPeriod=%ds StayPeriod=%ds Threshold=%d: request at t=%v for key %d got deny=%v, reference model says deny=%v; model state %+v; history: %v",
				P, stay, thr, time.Duration(t), k, deny, want, states[k][0], log[lo:])
			return
		}
		states[k] = next
	}
	if ndeny > 0 {
		s.Probe("some_denied")
	}
	if len(log) > 30 {
		log = log[:30]
	}
	s.Sample = map[string]interface{}{"check_period_s": P, "stay_period_s": stay, "threshold": thr, "keys": nkeys, "history": log}
}
