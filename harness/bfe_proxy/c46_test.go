//go:build verif
// +build verif

package bfe_proxy

import (
	"bytes"
	"encoding/binary"
	"fmt"
	"net"
	"strings"
	"testing"
	"time"

	"verif/simrt"
	"verif/simrt/simnet"
)

func TestSim(t *testing.T) {
	simrt.Main(t, map[string]simrt.Prop{
		"C46": {Run: runC46, Opt: simrt.Options{MaxSteps: 20000, IdleLimit: 5 * time.Minute, StuckClause: "C46.stuck"}},
	})
}

var sigV2 = []byte{0x0D, 0x0A, 0x0D, 0x0A, 0x00, 0x0D, 0x0A, 0x51, 0x55, 0x49, 0x54, 0x0A}

type c46case struct {
	desc     string
	header   []byte
	valid    bool // a spec-conformant header
	hasAddr  bool // PROXY command with TCP4/TCP6: addresses must be reported
	src, dst string
	none     bool // no header at all
}

func v2header(cmd byte, fam byte, addr []byte, tlv []byte) []byte {
	var b bytes.Buffer
	b.Write(sigV2)
	b.WriteByte(cmd)
	b.WriteByte(fam)
	binary.Write(&b, binary.BigEndian, uint16(len(addr)+len(tlv)))
	b.Write(addr)
	b.Write(tlv)
	return b.Bytes()
}

func genTLV(tp *simrt.Tape) []byte {
	var b bytes.Buffer
	n := tp.Draw(3, "tlv.n")
	for i := 0; i < n; i++ {
		l := tp.Draw(40, "tlv.len")
		b.WriteByte([]byte{0x01, 0x02, 0x04, 0x20, 0xE0}[tp.Draw(5, "tlv.type")]) // ALPN, AUTHORITY, NOOP (padding), SSL, custom
		binary.Write(&b, binary.BigEndian, uint16(l))
		for k := 0; k < l; k++ {
			b.WriteByte(byte('A' + (k+i)%26))
		}
	}
	return b.Bytes()
}

func genCase(tp *simrt.Tape, nofault bool) c46case {
	s4, d4 := fmt.Sprintf("203.0.113.%d", 1+tp.Draw(250, "ip")), fmt.Sprintf("198.51.100.%d", 1+tp.Draw(250, "ip"))
	s6, d6 := fmt.Sprintf("2001:db8::%x", 1+tp.Draw(60000, "ip6")), fmt.Sprintf("2001:db8:1::%x", 1+tp.Draw(60000, "ip6"))
	sp, dp := 1+tp.Draw(65535, "port"), 1+tp.Draw(65535, "port")
	k := tp.Draw(9, "header.kind")
	if !nofault && tp.Chance(1, 4, "header.malformed") {
		k = 9 + tp.Draw(7, "header.bad")
	}
	switch k {
	case 0:
		return c46case{desc: "v1 TCP4", header: []byte(fmt.Sprintf("PROXY TCP4 %s %s %d %d\r\n", s4, d4, sp, dp)), valid: true, hasAddr: true,
			src: net.JoinHostPort(s4, fmt.Sprint(sp)), dst: net.JoinHostPort(d4, fmt.Sprint(dp))}
	case 1:
		return c46case{desc: "v1 TCP6", header: []byte(fmt.Sprintf("PROXY TCP6 %s %s %d %d\r\n", s6, d6, sp, dp)), valid: true, hasAddr: true,
			src: net.JoinHostPort(s6, fmt.Sprint(sp)), dst: net.JoinHostPort(d6, fmt.Sprint(dp))}
	case 2:
		return c46case{desc: "v1 UNKNOWN", header: []byte("PROXY UNKNOWN\r\n"), valid: true}
	case 3:
		return c46case{desc: "v1 UNKNOWN with addresses", header: []byte(fmt.Sprintf("PROXY UNKNOWN %s %s %d %d\r\n", s6, d6, sp, dp)), valid: true}
	case 4:
		a := append(append(net.ParseIP(s4).To4(), net.ParseIP(d4).To4()...), byte(sp>>8), byte(sp), byte(dp>>8), byte(dp))
		return c46case{desc: "v2 PROXY TCP4", header: v2header(0x21, 0x11, a, genTLV(tp)), valid: true, hasAddr: true,
			src: net.JoinHostPort(s4, fmt.Sprint(sp)), dst: net.JoinHostPort(d4, fmt.Sprint(dp))}
	case 5:
		a := append(append(net.ParseIP(s6).To16(), net.ParseIP(d6).To16()...), byte(sp>>8), byte(sp), byte(dp>>8), byte(dp))
		return c46case{desc: "v2 PROXY TCP6", header: v2header(0x21, 0x21, a, genTLV(tp)), valid: true, hasAddr: true,
			src: net.JoinHostPort(s6, fmt.Sprint(sp)), dst: net.JoinHostPort(d6, fmt.Sprint(dp))}
	case 6:
		// LOCAL: the sender's own connection (health check); family UNSPEC, length 0 or some bytes to skip
		return c46case{desc: "v2 LOCAL UNSPEC", header: v2header(0x20, 0x00, nil, genTLV(tp)), valid: true}
	case 7:
		a := append(append(net.ParseIP(s4).To4(), net.ParseIP(d4).To4()...), byte(sp>>8), byte(sp), byte(dp>>8), byte(dp))
		return c46case{desc: "v2 LOCAL with TCP4 block", header: v2header(0x20, 0x11, a, nil), valid: true}
	case 8:
		return c46case{desc: "no header", none: true, valid: true}
	case 9:
		return c46case{desc: "v1 port out of range", header: []byte(fmt.Sprintf("PROXY TCP4 %s %s 70000 %d\r\n", s4, d4, dp))}
	case 10:
		return c46case{desc: "v1 bad address", header: []byte(fmt.Sprintf("PROXY TCP4 300.1.2.3 %s %d %d\r\n", d4, sp, dp))}
	case 11:
		return c46case{desc: "v1 missing CR", header: []byte(fmt.Sprintf("PROXY TCP4 %s %s %d %d\n", s4, d4, sp, dp))}
	case 12:
		return c46case{desc: "v1 too few fields", header: []byte(fmt.Sprintf("PROXY TCP4 %s %s\r\n", s4, d4))}
	case 13:
		return c46case{desc: "v2 bad version nibble", header: v2header(0x31, 0x11, make([]byte, 12), nil)}
	case 14:
		return c46case{desc: "v2 bad command", header: v2header(0x2F, 0x11, make([]byte, 12), nil)}
	default:
		h := v2header(0x21, 0x11, make([]byte, 12), nil)
		binary.BigEndian.PutUint16(h[14:], 4) // length shorter than a TCP4 address block
		return c46case{desc: "v2 length too short for TCP4", header: h[:16+4]}
	}
}

type c46run struct {
	s       *simrt.Sim
	cli     *simnet.Conn
	pc      *Conn
	wire    []byte
	got     []byte
	rerr    error
	src     net.Addr
	vaddr   net.Addr
	stallMs int
	cutAt   int
	firstAt time.Duration
}

//go:norace
func (r *c46run) sender() {
	w := r.wire
	if r.cutAt >= 0 && r.cutAt < len(w) {
		w = w[:r.cutAt]
	}
	if r.stallMs > 0 && len(w) > 2 {
		k := 1 + r.s.Draw(len(w)-1, "stall.at")
		r.cli.Write(w[:k])
		simrt.Sleep(time.Duration(r.stallMs) * time.Millisecond)
		r.s.Fault("stall")
		r.cli.Write(w[k:])
	} else {
		r.cli.Write(w)
	}
	r.cli.CloseWrite()
}

//go:norace
func (r *c46run) reader() {
	r.src = r.pc.RemoteAddr()
	r.vaddr = r.pc.VirtualAddr()
	r.firstAt = r.s.Now()
	buf := make([]byte, 300)
	for i := 0; i < 10000; i++ {
		k := 1 + r.s.Draw(len(buf), "rd.buf")
		n, err := r.pc.Read(buf[:k])
		r.got = append(r.got, buf[:n]...)
		if err != nil {
			r.rerr = err
			return
		}
	}
}

// C46: addresses reported as advertised (socket addresses for LOCAL/UNKNOWN),
// every following byte handed over unchanged, malformed header => error and no
// payload, no header => untouched, header stalled past the timeout => error in time.
//
//go:norace
func runC46(s *simrt.Sim) {
	tp := s.Tape
	nofault := simrt.Mode() == "nofault"
	s.SetSticky([]int{3, 10}[tp.Draw(2, "sched.strategy")])
	net1 := simnet.New(s)
	c := genCase(tp, nofault)
	n := []int{0, 1, 30, 700, 5000}[tp.Draw(5, "payload.class")]
	n = tp.Draw(n+1, "payload.len")
	payload := make([]byte, n)
	for i := range payload {
		payload[i] = byte((i*37 + n) % 253)
	}
	if c.none {
		// a stream that does not start with a PROXY signature: HTTP-like, or a lone 'P...' prefix
		first := []string{"GET / HTTP/1.1\r\nHost: x\r\n\r\n", "POST /upload HTTP/1.1\r\nHost: x\r\n\r\n", "PUT /p HTTP/1.0\r\n\r\n", "\x16\x03\x01\x00\xa5"}[tp.Draw(4, "noheader.first")]
		payload = append([]byte(first), payload...)
	}
	r := &c46run{s: s, cutAt: -1}
	r.wire = append(append([]byte{}, c.header...), payload...)
	peer, local := "192.0.2.33:41000", "10.200.0.1:8080"
	cli, srv := net1.Pair(peer, local)
	if !nofault {
		srv.Seg = []int{0, 2, 5}[tp.Draw(3, "seg")]
	}
	timeout := time.Duration([]int{50, 1000, 30000}[tp.Draw(3, "header_timeout_ms")]) * time.Millisecond
	maxHdr := int64([]int{0, 2048, 512}[tp.Draw(3, "max_header_bytes")])
	r.cli = cli
	r.pc = NewConn(srv, timeout, maxHdr)
	timedOut := false
	if !nofault && len(c.header) > 2 && tp.Chance(1, 5, "stall") {
		r.stallMs = []int{10, 200, 40000}[tp.Draw(3, "stall.ms")]
		timedOut = time.Duration(r.stallMs)*time.Millisecond > timeout
	}
	cut := false
	if !nofault && len(c.header) > 1 && tp.Chance(1, 8, "cut_header") {
		r.cutAt = 1 + tp.Draw(len(c.header)-1, "cut.at")
		cut = true
	}
	t1 := simrt.GoNamed("sender", nil, r.sender)
	t2 := simrt.GoNamed("reader", nil, r.reader)
	simrt.Join(t1, t2)
	s.Checked(1)
	s.Note("op", fmt.Sprintf("%s payload=%d stall=%dms cut=%d -> read %d bytes err=%v src=%v vaddr=%v", c.desc, len(payload), r.stallMs, r.cutAt, len(r.got), r.rerr, r.src, r.vaddr))
	s.Sample = map[string]interface{}{"header": c.desc, "payload": len(payload), "stall_ms": r.stallMs, "cut_at": r.cutAt, "read": len(r.got)}
	key := strings.Replace(c.desc, " ", "-", -1)
	stalledInHeader := r.stallMs > 0 && timedOut
	switch {
	case cut:
		// the sender died inside the header: nothing may be delivered as payload
		if len(r.got) > 0 {
			s.FailK("C46.malformed", "payload-after-truncated-header:"+key, "%s cut at %d of %d header bytes: %d bytes were delivered to the application", c.desc, r.cutAt, len(c.header), len(r.got))
		}
		s.Probe("cut_header")
	case stalledInHeader:
		// the header did not arrive within the timeout: error, no payload, in bounded time
		// (the stall point may also lie in the payload: then everything is normal)
		if len(r.got) == 0 {
			if r.rerr == nil {
				s.FailK("C46.timeout", "no-error-after-header-timeout", "%s: header stalled %dms (timeout %v) but no error", c.desc, r.stallMs, timeout)
			}
			s.Probe("header_timeout")
		} else if !bytes.Equal(r.got, payload) {
			s.FailK("C46.payload", "payload-altered:"+key, "%s: payload of %d bytes arrived as %d bytes", c.desc, len(payload), len(r.got))
		}
	case !c.valid:
		if len(r.got) > 0 || r.rerr == nil || r.rerr.Error() == "EOF" {
			s.FailK("C46.malformed", "malformed-header-accepted:"+key, "%s: %d bytes delivered, err=%v", c.desc, len(r.got), r.rerr)
			return
		}
		s.Probe("malformed_rejected")
	default:
		if r.rerr == nil || r.rerr.Error() != "EOF" {
			s.FailK("C46.valid", "valid-header-rejected:"+key, "%s: spec-conformant header, read ended with %v after %d of %d payload bytes", c.desc, r.rerr, len(r.got), len(payload))
			return
		}
		if !bytes.Equal(r.got, payload) {
			d := 0
			for d < len(r.got) && d < len(payload) && r.got[d] == payload[d] {
				d++
			}
			s.FailK("C46.payload", "payload-altered:"+key, "%s: payload of %d bytes arrived as %d bytes (first difference at %d: got %q)", c.desc, len(payload), len(r.got), d, clipb(r.got[d:], 24))
			return
		}
		if c.hasAddr {
			if r.src == nil || r.src.String() != c.src || r.vaddr == nil || r.vaddr.String() != c.dst {
				s.FailK("C46.addr", "address-misreported:"+key, "%s: advertised %s -> %s, reported %v -> %v", c.desc, c.src, c.dst, r.src, r.vaddr)
				return
			}
		} else if r.src == nil || r.src.String() != peer {
			s.FailK("C46.addr", "socket-address-not-used:"+key, "%s: must report the socket peer %s, reported %v", c.desc, peer, r.src)
			return
		}
		s.Probe("valid_ok")
	}
}

func clipb(b []byte, n int) []byte {
	if len(b) > n {
		return b[:n]
	}
	return b
}
