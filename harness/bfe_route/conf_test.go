//go:build verif
// +build verif

package bfe_route

import (
	"encoding/json"
	"fmt"
	"io/ioutil"
	"net/url"
	"os"
	"path/filepath"
	"sort"
	"strings"
	"testing"

	"github.com/bfenetworks/bfe/bfe_basic"
	"github.com/bfenetworks/bfe/bfe_config/bfe_cluster_conf/cluster_table_conf"
	"github.com/bfenetworks/bfe/bfe_config/bfe_cluster_conf/gslb_conf"
	"github.com/bfenetworks/bfe/bfe_config/bfe_route_conf/route_rule_conf"
	"github.com/bfenetworks/bfe/bfe_http"
	"verif/simrt"
)

// Engine I: the real configuration loaders (host / vip / route / cluster_conf through
// LoadServerDataConf, gslb and cluster_table through their own loaders) reading generated file sets
// from disk. The simulated elements are the state of the files at load time (complete, cut short in
// the middle of a deploy, damaged) and the map iteration order of the process (seeded through the
// range-over-map rewrite), i.e. what differs between one load and the next.

func TestSim(t *testing.T) {
	simrt.Main(t, map[string]simrt.Prop{
		"C13": {Run: runC13},
		"C14": {Run: runC14},
	})
}

type confSet struct {
	host, vip, route, cluster, gslb, table map[string]interface{}
	products                               []string
	clusters                               []string
	hosts                                  []string // request hosts worth trying
	paths                                  []string
}

func genSet(tp *simrt.Tape, c14 bool) *confSet {
	cs := &confSet{}
	np := tp.Range(1, 3, "n_products")
	nc := tp.Range(1, 4, "n_clusters")
	for i := 0; i < nc; i++ {
		cs.clusters = append(cs.clusters, fmt.Sprintf("cluster_%c", 'a'+i))
	}
	hostTags := map[string]interface{}{}
	hosts := map[string]interface{}{}
	vips := map[string]interface{}{}
	basic := map[string]interface{}{}
	adv := map[string]interface{}{}
	for p := 0; p < np; p++ {
		prod := fmt.Sprintf("prod%d", p)
		cs.products = append(cs.products, prod)
		var tags []string
		for t := tp.Range(1, 2, "n_tags"); t > 0; t-- {
			tag := fmt.Sprintf("tag%d_%d", p, t)
			tags = append(tags, tag)
			var hl []string
			for h := tp.Range(1, 3, "n_hosts"); h > 0; h-- {
				name := fmt.Sprintf("h%d-%d-%d.example.com", p, t, h)
				if tp.Chance(1, 6, "host.wild") {
					name = fmt.Sprintf("*.w%d%d%d.example.com", p, t, h)
					cs.hosts = append(cs.hosts, "x"+name[1:])
				} else {
					cs.hosts = append(cs.hosts, name)
				}
				hl = append(hl, name)
			}
			hosts[tag] = hl
		}
		hostTags[prod] = tags
		vips[prod] = []string{fmt.Sprintf("10.200.%d.1", p)}
		// basic rules (documented: host and/or path, target a cluster or ADVANCED_MODE)
		var br []map[string]interface{}
		for k := tp.Draw(4, "n_basic"); k > 0; k-- {
			r := map[string]interface{}{}
			target := cs.clusters[tp.Draw(nc, "basic.cluster")]
			if tp.Chance(1, 3, "basic.advanced_mode") {
				target = "ADVANCED_MODE"
			}
			r["ClusterName"] = target
			hostCond := []string{cs.hosts[tp.Draw(len(cs.hosts), "basic.host")]}
			if tp.Chance(1, 4, "basic.anyhost") {
				hostCond = []string{"*"}
			}
			path := []string{"/a", "/a/b", "/img/*", "*", "/"}[tp.Draw(5, "basic.path")]
			switch tp.Draw(3, "basic.shape") {
			case 0:
				r["Hostname"] = hostCond
			case 1:
				r["Path"] = []string{path}
			default:
				r["Hostname"], r["Path"] = hostCond, []string{path}
			}
			// (two rules with the same host+path are a conflict the loader refuses: keep them distinct)
			norm := func(m map[string]interface{}) string {
				h, p := "[*]", "[*]" // an absent condition matches anything, like "*"
				if v, ok := m["Hostname"]; ok {
					h = fmt.Sprint(v)
				}
				if v, ok := m["Path"]; ok {
					p = fmt.Sprint(v)
				}
				return h + p
			}
			key := norm(r)
			dup := false
			for _, o := range br {
				if norm(o) == key {
					dup = true
				}
			}
			if !dup {
				br = append(br, r)
			}
		}
		if len(br) > 0 {
			basic[prod] = br
		}
		var ar []map[string]interface{}
		for k := tp.Draw(3, "n_adv"); k > 0; k-- {
			cond := []string{`req_path_prefix_in("/api", false)`, `req_host_in("` + cs.hosts[0] + `")`, `req_method_in("POST")`}[tp.Draw(3, "adv.cond")]
			ar = append(ar, map[string]interface{}{"Cond": cond, "ClusterName": cs.clusters[tp.Draw(nc, "adv.cluster")]})
		}
		ar = append(ar, map[string]interface{}{"Cond": "default_t()", "ClusterName": cs.clusters[tp.Draw(nc, "adv.default")]})
		adv[prod] = ar
	}
	cs.paths = []string{"/", "/a", "/a/b", "/a/b/c", "/img/x.png", "/api/v1", "/zzz"}
	cs.host = map[string]interface{}{"Version": "h1", "DefaultProduct": nil, "Hosts": hosts, "HostTags": hostTags}
	if tp.Chance(1, 3, "default_product") {
		cs.host["DefaultProduct"] = cs.products[0]
	}
	cs.vip = map[string]interface{}{"Version": "v1", "Vips": vips}
	cs.route = map[string]interface{}{"Version": "r1", "ProductRule": adv}
	if len(basic) > 0 {
		cs.route["BasicRule"] = basic
	}
	cc := map[string]interface{}{}
	g := map[string]interface{}{}
	tb := map[string]interface{}{}
	for _, cl := range cs.clusters {
		cc[cl] = map[string]interface{}{
			"BackendConf":  map[string]interface{}{"TimeoutConnSrv": 2000, "TimeoutResponseHeader": 50000, "MaxIdleConnsPerHost": 2, "RetryLevel": 0},
			"CheckConf":    map[string]interface{}{"Schem": "http", "Uri": "/healthcheck", "Host": "example.org", "StatusCode": 200, "FailNum": 10, "CheckInterval": 1000},
			"GslbBasic":    map[string]interface{}{"CrossRetry": 0, "RetryMax": 2, "HashConf": map[string]interface{}{"HashStrategy": 0, "HashHeader": "Cookie:UID", "SessionSticky": false}},
			"ClusterBasic": map[string]interface{}{"TimeoutReadClient": 30000, "TimeoutWriteClient": 60000, "TimeoutReadClientAgain": 30000, "ReqWriteBufferSize": 512, "ReqFlushInterval": 0, "ResFlushInterval": -1, "CancelOnClientClose": false},
		}
		sub := cl + "_sub.bj"
		g[cl] = map[string]interface{}{"GSLB_BLACKHOLE": 0, sub: 100}
		tb[cl] = map[string]interface{}{sub: []map[string]interface{}{{"Addr": "10.0.0.1", "Name": cl + "-1", "Port": 8080, "Weight": 10}}}
	}
	cs.cluster = map[string]interface{}{"Version": "c1", "Config": cc}
	cs.gslb = map[string]interface{}{"Clusters": g, "Hostname": "gslb-sch.example.com", "Ts": "20190101000000"}
	cs.table = map[string]interface{}{"Config": tb, "Version": "t1"}
	return cs
}

func (cs *confSet) write(dir string) map[string]string {
	os.MkdirAll(dir, 0755)
	files := map[string]string{}
	for name, v := range map[string]interface{}{"host_rule.data": cs.host, "vip_rule.data": cs.vip, "route_rule.data": cs.route, "cluster_conf.data": cs.cluster, "gslb.data": cs.gslb, "cluster_table.data": cs.table} {
		b, _ := json.MarshalIndent(v, "", "  ")
		fn := filepath.Join(dir, name)
		ioutil.WriteFile(fn, b, 0644)
		files[name] = fn
	}
	return files
}

func scratchDir(s *simrt.Sim) string {
	base := os.Getenv("SIM_SCRATCH")
	if base == "" {
		base = os.TempDir()
	}
	d := filepath.Join(base, fmt.Sprintf("conf-%d-%x", os.Getpid(), s.Seed))
	os.RemoveAll(d)
	return d
}

type loadResult struct {
	conf  *ServerDataConf
	err   error
	panic interface{}
}

func loadAll(f map[string]string) (r loadResult) {
	defer func() {
		if p := recover(); p != nil {
			r.panic = p
		}
	}()
	r.conf, r.err = LoadServerDataConf(f["host_rule.data"], f["vip_rule.data"], f["route_rule.data"], f["cluster_conf.data"])
	if r.err != nil {
		return
	}
	if _, err := gslb_conf.GslbConfLoad(f["gslb.data"]); err != nil {
		r.err = fmt.Errorf("gslb: %v", err)
		return
	}
	if _, err := cluster_table_conf.ClusterTableLoad(f["cluster_table.data"]); err != nil {
		r.err = fmt.Errorf("cluster_table: %v", err)
	}
	return
}

func newReq(host, path, method string) *bfe_basic.Request {
	req := bfe_basic.NewRequest(nil, nil, nil, nil, nil)
	u, _ := url.Parse("http://" + host + path)
	req.HttpRequest = &bfe_http.Request{Method: method, Host: host, URL: u, Header: bfe_http.Header{}, RequestURI: path}
	req.Session = bfe_basic.NewSession(nil)
	return req
}

// closure: everything an accepted configuration routes to exists
func closure(c *ServerDataConf) error {
	ht := c.HostTable
	prods := map[string]bool{}
	for _, p := range ht.hostTagTable {
		prods[p] = true
	}
	var names []string
	for p := range ht.productBasicRouteTable {
		names = append(names, p)
	}
	for p := range ht.productAdvancedRouteTable {
		names = append(names, p)
	}
	sort.Strings(names)
	for _, p := range names {
		if !prods[p] {
			return fmt.Errorf("route rules for product %q which no host tag belongs to", p)
		}
		for _, r := range ht.productBasicRouteTable[p] {
			if r.ClusterName == route_rule_conf.AdvancedMode {
				continue
			}
			if _, err := c.ClusterTable.Lookup(r.ClusterName); err != nil {
				return fmt.Errorf("basic rule of %s targets cluster %q which is not in cluster_conf", p, r.ClusterName)
			}
		}
		for _, r := range ht.productAdvancedRouteTable[p] {
			if _, err := c.ClusterTable.Lookup(r.ClusterName); err != nil {
				return fmt.Errorf("advanced rule of %s targets cluster %q which is not in cluster_conf", p, r.ClusterName)
			}
		}
	}
	return nil
}

// C13
func runC13(s *simrt.Sim) {
	tp := s.Tape
	s.SetMapOrder(tp.Draw(3, "maporder"))
	cs := genSet(tp, false)
	dir := scratchDir(s)
	defer os.RemoveAll(dir)
	files := cs.write(dir)
	desc := fmt.Sprintf("%d products, %d clusters, BasicRule=%v", len(cs.products), len(cs.clusters), cs.route["BasicRule"] != nil)
	damage := ""
	if simrt.Mode() != "nofault" && tp.Chance(2, 3, "damage") {
		damage = damageFile(s, cs, files)
	}
	s.Note("op", desc+"; damage: "+damage)
	r := loadAll(files)
	s.Checked(1)
	if r.panic != nil {
		s.FailK("C13.crash", "loader-panics", "%s; %s: the loader panicked: %v", desc, damage, r.panic)
		return
	}
	if damage == "" {
		if r.err != nil {
			s.FailK("C13.accept", "documented-config-rejected", "%s: a configuration in the documented format was rejected: %v; route_rule.data = %s", desc, r.err, compact(cs.route))
			return
		}
		s.Probe("conf_valid_accepted")
	}
	if r.err != nil {
		s.Probe("conf_damaged_rejected")
		return
	}
	if err := closure(r.conf); err != nil {
		s.FailK("C13.closure", "accepted-config-has-dangling-reference", "%s; %s: accepted, but %v", desc, damage, err)
		return
	}
	// and routing a few requests never ends in a cluster that does not exist
	for _, h := range cs.hosts {
		for _, p := range cs.paths {
			rt := r.conf.HostTable.Lookup(newReq(h, p, "GET"))
			if rt.Error == nil {
				if _, err := r.conf.ClusterTable.Lookup(rt.ClusterName); err != nil {
					s.FailK("C13.closure", "request-routed-to-unknown-cluster", "%s; %s: %s%s is routed to cluster %q which does not exist", desc, damage, h, p, rt.ClusterName)
					return
				}
			}
		}
	}
	if damage != "" {
		s.Probe("conf_damaged_accepted_closed")
	}
}

func compact(v interface{}) string {
	b, _ := json.Marshal(v)
	if len(b) > 700 {
		b = append(b[:700], "..."...)
	}
	return string(b)
}

// damageFile changes one file of the set: cut short, structurally damaged, or referring to something that is not there.
func damageFile(s *simrt.Sim, cs *confSet, files map[string]string) string {
	tp := s.Tape
	names := []string{"host_rule.data", "vip_rule.data", "route_rule.data", "cluster_conf.data", "gslb.data", "cluster_table.data"}
	name := names[tp.Draw(len(names), "damage.file")]
	fn := files[name]
	b, _ := ioutil.ReadFile(fn)
	switch tp.Draw(6, "damage.kind") {
	case 5:
		// one rule entry of the route table is incomplete, null or misspelt
		s.Fault("incomplete_rule_entry")
		entry := []interface{}{map[string]interface{}{}, nil, map[string]interface{}{"Cond": "default_t()"}, map[string]interface{}{"ClusterName": cs.clusters[0]},
			map[string]interface{}{"cond": "default_t()", "cluster_name": cs.clusters[0]}, map[string]interface{}{"Cond": nil, "ClusterName": nil}, map[string]interface{}{"Hostname": []string{"a.example.com"}}}[tp.Draw(7, "entry.variant")]
		table := "ProductRule"
		if _, ok := cs.route["BasicRule"]; ok && tp.Chance(1, 2, "entry.basic") {
			table = "BasicRule"
		}
		var generic map[string]interface{}
		rb, _ := json.Marshal(cs.route)
		json.Unmarshal(rb, &generic)
		if m, ok := generic[table].(map[string]interface{}); ok {
			for _, p := range cs.products {
				if rules, ok := m[p].([]interface{}); ok && len(rules) > 0 {
					rules[tp.Draw(len(rules), "entry.index")] = entry
					break
				}
			}
		}
		nb, _ := json.Marshal(generic)
		ioutil.WriteFile(files["route_rule.data"], nb, 0644)
		return fmt.Sprintf("route_rule.data: an entry of %s replaced by %s", table, compact(entry))
	case 0:
		cut := tp.Draw(len(b), "damage.cut")
		ioutil.WriteFile(fn, b[:cut], 0644)
		s.Fault("torn_file")
		return fmt.Sprintf("%s cut after %d of %d bytes", name, cut, len(b))
	case 1:
		os.Remove(fn)
		s.Fault("missing_file")
		return name + " missing"
	case 2:
		var v interface{}
		json.Unmarshal(b, &v)
		what := mutateJSON(tp, &v)
		nb, _ := json.Marshal(v)
		ioutil.WriteFile(fn, nb, 0644)
		s.Fault("json_damage")
		return fmt.Sprintf("%s: %s", name, what)
	case 3:
		// a reference to something that does not exist
		s.Fault("dangling_reference")
		r := cs.route
		if adv, ok := r["ProductRule"].(map[string]interface{}); ok {
			if tp.Chance(1, 2, "dangling.which") {
				adv["ghost_product"] = []map[string]interface{}{{"Cond": "default_t()", "ClusterName": cs.clusters[0]}}
			} else if br, ok := r["BasicRule"].(map[string]interface{}); ok && tp.Chance(1, 2, "dangling.basic") {
				for _, p := range cs.products {
					if rules, ok := br[p].([]map[string]interface{}); ok && len(rules) > 0 {
						rules[0]["ClusterName"] = "ghost_cluster"
						// sometimes the product has basic rules only
						if tp.Chance(1, 2, "dangling.basic_only") {
							delete(adv, p)
						}
						break
					}
				}
			} else {
				// (ADVANCED_MODE is a target for basic rules only: in an advanced rule it is
				// the name of a cluster that does not exist, at the default or a seeded entry)
				rules := adv[cs.products[tp.Draw(len(cs.products), "dangling.adv_product")]].([]map[string]interface{})
				i := len(rules) - 1
				if tp.Chance(1, 2, "dangling.adv_any") {
					i = tp.Draw(len(rules), "dangling.adv_index")
				}
				if tp.Chance(1, 2, "dangling.adv_mode") {
					rules[i]["ClusterName"] = "ADVANCED_MODE"
					s.Probe("conf_advanced_rule_targets_advanced_mode")
				} else {
					rules[i]["ClusterName"] = "ghost_cluster"
				}
			}
		}
		nb, _ := json.Marshal(r)
		ioutil.WriteFile(files["route_rule.data"], nb, 0644)
		return "route_rule.data refers to a product / cluster that does not exist"
	default:
		i := tp.Draw(len(b), "damage.flip_at")
		b[i] = byte(tp.Draw(256, "damage.flip_byte"))
		ioutil.WriteFile(fn, b, 0644)
		s.Fault("byte_damage")
		return fmt.Sprintf("%s byte %d overwritten", name, i)
	}
}

// mutateJSON walks to a seeded node and replaces / removes it.
func mutateJSON(tp *simrt.Tape, v *interface{}) string {
	path := ""
	cur := v
	for depth := 0; depth < 6; depth++ {
		switch t := (*cur).(type) {
		case map[string]interface{}:
			if len(t) == 0 || tp.Chance(1, 4, "mutate.here") {
				return path + " " + replaceNode(tp, cur)
			}
			var ks []string
			for k := range t {
				ks = append(ks, k)
			}
			sort.Strings(ks)
			k := ks[tp.Draw(len(ks), "mutate.key")]
			if tp.Chance(1, 4, "mutate.delete") {
				delete(t, k)
				return path + "/" + k + " deleted"
			}
			child := t[k]
			t[k] = child
			path += "/" + k
			cc := child
			cur = &cc
			defer func(m map[string]interface{}, key string, p *interface{}) { m[key] = *p }(t, k, cur)
		case []interface{}:
			if len(t) == 0 || tp.Chance(1, 3, "mutate.here") {
				return path + " " + replaceNode(tp, cur)
			}
			i := tp.Draw(len(t), "mutate.index")
			path += fmt.Sprintf("[%d]", i)
			cc := t[i]
			cur = &cc
			defer func(a []interface{}, idx int, p *interface{}) { a[idx] = *p }(t, i, cur)
		default:
			return path + " " + replaceNode(tp, cur)
		}
	}
	return path + " " + replaceNode(tp, cur)
}

func replaceNode(tp *simrt.Tape, p *interface{}) string {
	switch tp.Draw(7, "mutate.to") {
	case 0:
		*p = nil
		return "-> null"
	case 1:
		*p = map[string]interface{}{}
		return "-> {}"
	case 2:
		*p = []interface{}{}
		return "-> []"
	case 3:
		*p = 12345
		return "-> number"
	case 4:
		*p = "text"
		return "-> string"
	case 5:
		*p = []interface{}{nil, map[string]interface{}{}}
		return "-> [null, {}]"
	default:
		*p = -1
		return "-> -1"
	}
}

var _ = strings.ToLower

// C14: the same files always mean the same. One generated set (with the traps the loaders are known
// for: host names that differ only in case under different tags, a host tag listed under two
// products) is loaded several times under different seeded map iteration orders, as fresh processes
// and reloads would; for a fixed sample of requests the chosen product and cluster must be the same
// in every load - or the set must be refused in every load.
func runC14(s *simrt.Sim) {
	tp := s.Tape
	cs := genSet(tp, true)
	trap := ""
	if simrt.Mode() != "nofault" {
		hosts := cs.host["Hosts"].(map[string]interface{})
		tags := cs.host["HostTags"].(map[string]interface{})
		var tagNames []string
		for t := range hosts {
			tagNames = append(tagNames, t)
		}
		sort.Strings(tagNames)
		switch tp.Draw(4, "trap") {
		case 1:
			if len(tagNames) >= 2 {
				// the same host name, once more in another letter case, under another tag
				a, b := tagNames[0], tagNames[len(tagNames)-1]
				h := hosts[a].([]string)[0]
				if !strings.HasPrefix(h, "*") {
					hosts[b] = append(hosts[b].([]string), strings.ToUpper(h[:1])+h[1:])
					trap = fmt.Sprintf("host %q is listed under tag %s and, as %q, under tag %s", h, a, strings.ToUpper(h[:1])+h[1:], b)
					s.Fault("host_differs_in_case_only")
				}
			}
		case 2:
			if len(cs.products) >= 2 {
				// one host tag claimed by two products
				p0, p1 := cs.products[0], cs.products[1]
				t0 := tags[p0].([]string)[0]
				tags[p1] = append(tags[p1].([]string), t0)
				trap = fmt.Sprintf("host tag %s is listed under products %s and %s", t0, p0, p1)
				s.Fault("host_tag_under_two_products")
			}
		case 3:
			if len(tagNames) >= 2 {
				a, b := tagNames[0], tagNames[len(tagNames)-1]
				h := hosts[a].([]string)[0]
				hosts[b] = append(hosts[b].([]string), h)
				trap = fmt.Sprintf("host %q is listed under tags %s and %s", h, a, b)
				s.Fault("host_under_two_tags")
			}
		}
	}
	dir := scratchDir(s)
	defer os.RemoveAll(dir)
	files := cs.write(dir)
	s.Note("op", fmt.Sprintf("%d products, %d hosts; trap: %s", len(cs.products), len(cs.hosts), trap))
	type outcome struct {
		rejected bool
		routes   []string
	}
	var first *outcome
	nloads := 6
	for i := 0; i < nloads; i++ {
		s.SetMapOrder(i) // 0 = sorted, k>0 = the k-th seeded permutation stream
		r := loadAll(files)
		if r.panic != nil {
			s.FailK("C14.crash", "loader-panics", "%v", r.panic)
			return
		}
		o := &outcome{rejected: r.err != nil}
		if r.err == nil {
			for _, h := range cs.hosts {
				for _, variant := range []string{h, strings.ToUpper(h)} {
					for _, p := range cs.paths {
						rt := r.conf.HostTable.Lookup(newReq(variant, p, "GET"))
						o.routes = append(o.routes, fmt.Sprintf("%s%s -> product=%s tag=%s cluster=%s err=%v", variant, p, rt.Product, rt.HostTag, rt.ClusterName, rt.Error != nil))
					}
				}
			}
		}
		s.Checked(1)
		if first == nil {
			first = o
			continue
		}
		if o.rejected != first.rejected {
			s.FailK("C14.accept", "acceptance-depends-on-iteration-order", "%s: load 0 rejected=%v, load %d rejected=%v", trap, first.rejected, i, o.rejected)
			return
		}
		for k := range o.routes {
			if o.routes[k] != first.routes[k] {
				s.FailK("C14.route", "routing-depends-on-iteration-order", "the same files (%s) loaded twice route the same request differently: [%s] under the first iteration order, [%s] under order #%d; a set whose meaning depends on the order must be refused", trap, first.routes[k], o.routes[k], i)
				return
			}
		}
	}
	if first.rejected {
		s.Probe("conf_ambiguous_rejected")
	} else {
		s.Probe("conf_deterministic")
	}
}
