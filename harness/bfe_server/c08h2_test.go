//go:build verif
// +build verif

package bfe_server

import (
	"bytes"
	"fmt"
	"time"

	xh2 "golang.org/x/net/http2"
	xhpack "golang.org/x/net/http2/hpack"

	"verif/simrt"
	"verif/simrt/simnet"

	"github.com/bfenetworks/bfe/bfe_http2"
)

// C08, HTTP/2 leg: the same node (reverse proxy, balancer, transports, scripted
// backends on simnet) reached through the real bfe_http2 server and the real
// ProtocolHandler, the way conn.serve hands a negotiated "h2" connection over
// (minus TLS). HTTP/2 requests have shapes HTTP/1 cannot produce: a body of
// unknown length without any transfer coding (DATA frames, no content-length),
// also on a GET. The retry rules are those of checkC08.

type h2client struct {
	e    *eng
	conn *simnet.Conn
	fr   *xh2.Framer
	hbuf bytes.Buffer
	enc  *xhpack.Encoder
	dec  *xhpack.Decoder
	dead bool
}

func (c *h2client) fields(p *reqPlan, withLen bool) []byte {
	c.hbuf.Reset()
	w := func(n, v string) { c.enc.WriteField(xhpack.HeaderField{Name: n, Value: v}) }
	w(":method", p.Method)
	w(":scheme", "https")
	w(":authority", p.Host)
	w(":path", p.Path)
	w("x-req-id", fmt.Sprintf("%d", p.ID))
	if withLen {
		w("content-length", fmt.Sprintf("%d", len(p.Body)))
	}
	return append([]byte(nil), c.hbuf.Bytes()...)
}

// roundTrip sends one request on stream id and reads until the stream is over.
// shape: 0 no body (END_STREAM on HEADERS), 1 body with content-length, 2 body of
// unknown length, 3 unknown length where the DATA frames carry nothing.
func (c *h2client) roundTrip(id uint32, p *reqPlan, shape int) (status int, over string) {
	tp := c.e.tp
	if err := c.fr.WriteHeaders(xh2.HeadersFrameParam{StreamID: id, BlockFragment: c.fields(p, shape == 1), EndHeaders: true, EndStream: shape == 0}); err != nil {
		c.dead = true
		return 0, "write-error"
	}
	if shape != 0 {
		left := p.Body
		for len(left) > 0 {
			k := 1 + tp.Draw(minI(len(left), 1200), "h2.data_len")
			if err := c.fr.WriteData(id, false, left[:k]); err != nil {
				c.dead = true
				return 0, "write-error"
			}
			left = left[k:]
			if tp.Chance(1, 4, "h2.data_pause") {
				simrt.Sleep(time.Duration(1+tp.Draw(30, "h2.data_pause_ms")) * time.Millisecond)
			}
		}
		if err := c.fr.WriteData(id, true, nil); err != nil {
			c.dead = true
			return 0, "write-error"
		}
	}
	c.conn.SetReadDeadline(time.Now().Add(120 * time.Second))
	for {
		f, err := c.fr.ReadFrame()
		if err != nil {
			c.dead = true
			return status, "connection-ended"
		}
		switch f := f.(type) {
		case *xh2.SettingsFrame:
			if !f.IsAck() {
				c.fr.WriteSettingsAck()
			}
		case *xh2.PingFrame:
			if !f.IsAck() {
				c.fr.WritePing(true, f.Data)
			}
		case *xh2.GoAwayFrame:
			c.dead = true
			return status, "goaway"
		case *xh2.RSTStreamFrame:
			if f.StreamID == id {
				return status, "reset"
			}
		case *xh2.HeadersFrame:
			if f.StreamID != id {
				continue
			}
			hs, _ := c.dec.DecodeFull(f.HeaderBlockFragment())
			for _, h := range hs {
				if h.Name == ":status" {
					fmt.Sscanf(h.Value, "%d", &status)
				}
			}
			if f.StreamEnded() {
				return status, "end"
			}
		case *xh2.DataFrame:
			if f.StreamID == id && f.StreamEnded() {
				return status, "end"
			}
		}
	}
}

func runC08h2(s *simrt.Sim) {
	tp := s.Tape
	e := &eng{s: s, tp: tp, focus: "C08", plans: map[int]*reqPlan{}, nAttempt: map[int]int{}, pending: map[string]*attemptRec{}}
	e.faults = simrt.Mode() != "nofault"
	s.SetSticky([]int{3, 10, 30}[tp.Draw(3, "sched.strategy")])
	if e.faults {
		s.SetMapOrder(tp.Draw(3, "maporder"))
		s.SetSelectOrder(tp.Draw(3, "selectorder"))
	}
	e.net = simnet.New(s)
	if e.faults {
		e.net.Seg = []int{0, 2, 6}[tp.Draw(3, "net.seg")]
	}
	e.conf = e.genConf(1)
	n := tp.Range(1, 4, "n_requests")
	var list []*reqPlan
	shapes := map[int]int{}
	for id := 0; id < n; id++ {
		p := &reqPlan{ID: id, Conn: 0, Proto: "HTTP/2.0", Host: "h0.example", Path: fmt.Sprintf("/r%d/x?q=%d", id, tp.Draw(50, "query"))}
		p.Method = []string{"GET", "GET", "GET", "POST", "PUT"}[tp.Draw(5, "method")]
		shape := tp.Draw(4, "h2.body_shape")
		if shape == 1 || shape == 2 {
			p.Body = e.genBody([]int{5, 200, 3000}[tp.Draw(3, "req_body_class")])
			if len(p.Body) == 0 {
				p.Body = []byte("x")
			}
		}
		// a request that announces no length and is not ended by its HEADERS may carry a
		// body for all the server knows: only shape 0 is body-less
		p.Chunked = shape >= 2
		shapes[id] = shape
		for a := 0; a < 5; a++ {
			ap := attemptPlan{Kind: akRespond}
			if e.faults && tp.Chance(2, 5, "attempt_fault") {
				ap.Kind = 1 + tp.Draw(akKinds-1, "attempt_kind")
			} else if e.faults && tp.Chance(1, 3, "attempt_connect_fault") {
				ap.Kind = []int{akDialRefuse, akDialTimeout}[tp.Draw(2, "attempt_connect_kind")]
			}
			ap.Resp = e.genResp(p.Method)
			ap.Cut = tp.Draw(40, "cut")
			if ap.Kind == akCloseMidBody && ap.Resp.Framing == "close" {
				ap.Kind = akRespond
			}
			p.Attempts = append(p.Attempts, ap)
		}
		e.plans[id] = p
		list = append(list, p)
	}
	e.byConn = [][]*reqPlan{list}
	e.clients = []*clientRec{{Conn: 0}}
	e.cur = make([]*reqPlan, 1)
	e.net.Policy = e.policy
	node, err := startNode(s, e.net, e.conf, nil)
	if err != nil {
		s.FailK("C08.start", "node-start-failed", "node did not start on a generated configuration: %v", err)
		return
	}
	e.n = node
	e.realBackends()
	for _, cl := range e.conf.Clusters {
		for _, sn := range sortedSubNames(cl) {
			for _, b := range cl.Subs[sn] {
				l := e.net.Listen(b.AddrInfo())
				e.lsn = append(e.lsn, l)
				simrt.GoNamed("backend.accept", b.AddrInfo(), e.acceptLoop(l, b.AddrInfo()))
			}
		}
	}
	// the connection, as conn.serve sets it up once "h2" has been negotiated
	cli, srvEnd := e.net.Pair("192.0.2.10:5000", "10.200.0.1:8443")
	c, err := newConn(srvEnd, node.srv)
	if err != nil {
		panic(err)
	}
	c.session.Proto = "h2"
	handler := NewProtocolHandler(c, "h2")
	simrt.GoNamed("h2.serve", nil, func() {
		(&bfe_http2.Server{}).ServeConn(srvEnd, &bfe_http2.ServeConnOpts{BaseConfig: &node.srv.Server, Handler: handler})
	})
	hc := &h2client{e: e, conn: cli}
	hc.fr = xh2.NewFramer(cli, cli)
	hc.fr.SetMaxReadFrameSize(1 << 24)
	hc.enc = xhpack.NewEncoder(&hc.hbuf)
	hc.dec = xhpack.NewDecoder(4096, nil)
	client := simrt.GoNamed("h2client", nil, func() {
		defer cli.Close()
		cli.Write([]byte(xh2.ClientPreface))
		hc.fr.WriteSettings(xh2.Setting{ID: xh2.SettingInitialWindowSize, Val: 1 << 24})
		hc.fr.WriteWindowUpdate(0, 1<<24)
		for i, p := range list {
			if hc.dead {
				break
			}
			e.retryConf(0, p, i)
			e.cur[0] = p
			s.Note("op", fmt.Sprintf("h2 client sends req %d %s shape=%d body=%d", p.ID, p.Method, shapes[p.ID], len(p.Body)))
			status, over := hc.roundTrip(uint32(1+2*i), p, shapes[p.ID])
			s.Note("op", fmt.Sprintf("h2 client: req %d -> status %d (%s)", p.ID, status, over))
			e.cur[0] = nil
			e.clients[0].Sent = append(e.clients[0].Sent, p)
			if shapes[p.ID] >= 2 && p.Method == "GET" {
				s.Probe("c08_h2_get_with_unknown_length_body")
			}
		}
	})
	simrt.Join(client)
	simrt.Sleep(2 * time.Second)
	for _, l := range e.lsn {
		l.Close()
	}
	simrt.Sleep(100 * time.Millisecond)
	var sample []string
	for _, p := range list {
		sample = append(sample, fmt.Sprintf("r%d %s shape=%d body=%d attempts_seen=%d RetryMax=%d CrossRetry=%d RetryLevel=%d", p.ID, p.Method, shapes[p.ID], len(p.Body), len(e.attemptsOf(p.ID)), p.RetryMax, p.CrossRetry, p.RetryLevel))
	}
	s.Sample = map[string]interface{}{"requests": sample}
	if s.Failed() {
		return
	}
	e.checkPanics()
	e.checkC08()
}
