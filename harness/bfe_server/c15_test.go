//go:build verif
// +build verif

package bfe_server

import (
	"fmt"
	"io/ioutil"
	"net/url"
	"os"
	"path/filepath"
	"strings"
	"time"

	"github.com/bfenetworks/bfe/bfe_http"
	"verif/simrt"
	"verif/simrt/href"
	"verif/simrt/simnet"
)

// C15: requests processed while reloads run are each handled under one
// configuration snapshot per reload domain; concurrent reloads and request
// processing never race or panic; a failed reload leaves the old version serving.
//
// Routing domain (host/vip/route/cluster_conf, one ServerDataConfReload):
//   version v: host h.example -> product p<v%2>; route rule of that product ->
//   cluster cl<v%3>; the other product's rule -> clX; cluster_conf describes only
//   those two clusters. A request that took the
//   product from one version and the route from another ends in clX or in a
//   cluster no admissible version gives.
// Balancing domain (gslb + cluster_table, one GslbDataConfReload):
//   version u: every cluster has sub-clusters s1 and s<2+u%2> with backends
//   whose address carries u (plus one address shared by all versions).

var c15clusters = []string{"cl0", "cl1", "cl2", "clX"}

func c15addr(ci, sub, u, k int) string {
	return fmt.Sprintf("10.15.%d.%d:%d", ci*16+sub, 1+u*4+k, 8000)
}

// files of routing version v, written flat into dir (the reload "path" form)
func c15writeRouting(dir string, v int, torn bool) {
	os.MkdirAll(dir, 0755)
	ver := fmt.Sprintf("r%d", v)
	prod, other := fmt.Sprintf("p%d", v%2), fmt.Sprintf("p%d", (v+1)%2)
	writeJSON(filepath.Join(dir, "host_rule.data"), map[string]interface{}{"Version": ver, "DefaultProduct": nil,
		"Hosts":    map[string]interface{}{"t" + prod: []string{"h.example"}, "t" + other: []string{"other.example"}},
		"HostTags": map[string]interface{}{prod: []string{"t" + prod}, other: []string{"t" + other}}})
	writeJSON(filepath.Join(dir, "vip_rule.data"), map[string]interface{}{"Version": ver, "Vips": map[string]interface{}{prod: []string{"10.200.0.9"}}})
	writeJSON(filepath.Join(dir, "route_rule.data"), map[string]interface{}{"Version": ver, "ProductRule": map[string]interface{}{
		prod:  []map[string]interface{}{{"Cond": "default_t()", "ClusterName": fmt.Sprintf("cl%d", v%3)}},
		other: []map[string]interface{}{{"Cond": "default_t()", "ClusterName": "clX"}}}})
	cc := map[string]interface{}{}
	// a version only describes the clusters it routes to: a request routed under one version
	// and looked up in another finds no such cluster
	for _, cl := range []string{fmt.Sprintf("cl%d", v%3), "clX"} {
		cc[cl] = map[string]interface{}{
			"BackendConf": map[string]interface{}{"TimeoutConnSrv": 500, "TimeoutResponseHeader": c15hdrTimeout(v), "MaxIdleConnsPerHost": 1 + v%3, "RetryLevel": 0},
			"CheckConf":   map[string]interface{}{"Schem": "tcp", "FailNum": 1000, "CheckInterval": 1000},
			"GslbBasic":   map[string]interface{}{"CrossRetry": 1, "RetryMax": 1 + v%4, "HashConf": map[string]interface{}{"HashStrategy": 1, "SessionSticky": false}},
			"ClusterBasic": map[string]interface{}{"TimeoutReadClient": 30000, "TimeoutWriteClient": 60000, "TimeoutReadClientAgain": 30000,
				"ReqWriteBufferSize": 512, "ReqFlushInterval": 0, "ResFlushInterval": -1, "CancelOnClientClose": false},
		}
	}
	writeJSON(filepath.Join(dir, "cluster_conf.data"), map[string]interface{}{"Version": ver, "Config": cc})
	if torn {
		// a non-atomic deploy caught half-way: route_rule.data holds only its first bytes
		fn := filepath.Join(dir, "route_rule.data")
		b, _ := ioutil.ReadFile(fn)
		ioutil.WriteFile(fn, b[:len(b)/2], 0644)
	}
}

// response-header timeout of routing version v (ms); backends answer either at once or after c15slowMs
func c15hdrTimeout(v int) int { return []int{5000, 200}[v%2] }

const c15slowMs = 600

func c15subs(u int) []int { return []int{1, 2 + u%2} }

func c15writeBalancing(dir string, u int, torn bool) {
	os.MkdirAll(dir, 0755)
	gslb := map[string]interface{}{}
	table := map[string]interface{}{}
	for ci, cl := range c15clusters {
		g := map[string]int{"GSLB_BLACKHOLE": 0}
		subs := map[string]interface{}{}
		for _, sub := range c15subs(u) {
			sn := fmt.Sprintf("s%d.%s", sub, cl)
			g[sn] = 1 + (u+sub)%3
			list := []map[string]interface{}{}
			for k := 0; k < 2; k++ {
				a := c15addr(ci, sub, u, k)
				host := a[:strings.LastIndex(a, ":")]
				list = append(list, map[string]interface{}{"Name": fmt.Sprintf("%s-u%d-%d", sn, u, k), "Addr": host, "Port": 8000, "Weight": 1 + k})
			}
			// one backend per sub-cluster that every version keeps
			list = append(list, map[string]interface{}{"Name": sn + "-stable", "Addr": fmt.Sprintf("10.15.%d.250", ci*16+sub), "Port": 8000, "Weight": 1})
			subs[sn] = list
		}
		gslb[cl] = g
		table[cl] = subs
	}
	writeJSON(filepath.Join(dir, "gslb.data"), map[string]interface{}{"Clusters": gslb, "Hostname": "sim", "Ts": fmt.Sprintf("%d", u)})
	writeJSON(filepath.Join(dir, "cluster_table.data"), map[string]interface{}{"Version": fmt.Sprintf("b%d", u), "Config": table})
	if torn {
		fn := filepath.Join(dir, "cluster_table.data")
		b, _ := ioutil.ReadFile(fn)
		ioutil.WriteFile(fn, b[:len(b)/3], 0644)
	}
}

type c15reload struct {
	domain   string // routing | balancing
	version  int
	torn     bool
	inv, ret uint64
	err      error
}

type c15req struct {
	conn     int
	id       int
	inv, ret uint64
	status   int
	backend  string // X-Backend of the response
	slow     bool   // the backend answers after c15slowMs
	raw      string
}

type c15 struct {
	s       *simrt.Sim
	net     *simnet.Net
	n       *node
	reloads [][]c15reload // per reloader task
	reqs    [][]c15req    // per client
	plan    [][]c15reload
	nreq    []int
	slow    [][]bool
}

//go:norace
func (h *c15) backendLoop(l *simnet.Listener, addr string) func() {
	return func() {
		for {
			c, err := l.Accept()
			if err != nil {
				return
			}
			conn := c.(*simnet.Conn)
			simrt.GoNamed("backend.conn", addr, func() {
				defer conn.Close()
				var buf []byte
				tmp := make([]byte, 1024)
				for {
					m, n, perr := href.ParseRequest(buf)
					if perr == href.ErrIncomplete {
						k, err := conn.Read(tmp)
						buf = append(buf, tmp[:k]...)
						if err != nil {
							return
						}
						continue
					}
					if perr != nil {
						return
					}
					buf = buf[n:]
					if strings.Contains(m.Target, "slow") {
						simrt.Sleep(c15slowMs * time.Millisecond)
					}
					body := "ok " + addr
					fmt.Fprintf(conn, "HTTP/1.1 200 OK\r\nX-Backend: %s\r\nContent-Length: %d\r\n\r\n%s", addr, len(body), body)
				}
			})
		}
	}
}

//go:norace
func (h *c15) reloader(i int) func() {
	return func() {
		root := filepath.Join(h.n.root, fmt.Sprintf("c15r%d", i))
		for k, r := range h.plan[i] {
			dir := filepath.Join(root, fmt.Sprintf("%s%d", r.domain, k))
			q := url.Values{"path": []string{dir}}
			if r.domain == "routing" {
				c15writeRouting(dir, r.version, r.torn)
				r.inv = h.s.Note("inv", fmt.Sprintf("reload routing -> r%d torn=%v", r.version, r.torn))
				r.err = h.n.srv.ServerDataConfReload(q)
			} else {
				c15writeBalancing(dir, r.version, r.torn)
				r.inv = h.s.Note("inv", fmt.Sprintf("reload balancing -> b%d torn=%v", r.version, r.torn))
				r.err = h.n.srv.GslbDataConfReload(q)
			}
			r.ret = h.s.Note("ret", fmt.Sprintf("reload %s done err=%v", r.domain, r.err != nil))
			h.s.Fault("reload_" + r.domain)
			if r.torn {
				h.s.Fault("torn_config_file")
			}
			h.reloads[i] = append(h.reloads[i], r)
			os.RemoveAll(dir)
		}
	}
}

//go:norace
func (h *c15) client(ci int) func() {
	return func() {
		conn := h.n.connect(fmt.Sprintf("192.0.2.%d:%d", 50+ci, 6000+ci))
		defer conn.Close()
		tmp := make([]byte, 2048)
		for k := 0; k < h.nreq[ci]; k++ {
			id := ci*100 + k
			r := c15req{conn: ci, id: id, slow: h.slow[ci][k]}
			r.inv = h.s.Note("inv", fmt.Sprintf("request %d slow=%v", id, r.slow))
			path := fmt.Sprintf("/r%d", id)
			if r.slow {
				path += "/slow"
			}
			if _, err := conn.Write([]byte(fmt.Sprintf("GET %s HTTP/1.1\r\nHost: h.example\r\n\r\n", path))); err != nil {
				break
			}
			var raw []byte
			conn.SetReadDeadline(time.Now().Add(60 * time.Second))
			for {
				m, _, perr := href.ParseResponse(raw, "GET", false)
				if perr == nil {
					r.status = m.Status
					if v := m.Get("X-Backend"); len(v) > 0 {
						r.backend = v[0]
					}
					break
				}
				if perr != href.ErrIncomplete {
					r.status = -1
					break
				}
				n, err := conn.Read(tmp)
				raw = append(raw, tmp[:n]...)
				if err != nil {
					r.status = -2
					break
				}
			}
			r.raw = string(clip(raw, 200))
			r.ret = h.s.Note("ret", fmt.Sprintf("request %d -> %d %s", id, r.status, r.backend))
			h.reqs[ci] = append(h.reqs[ci], r)
			if r.status != 200 {
				break
			}
		}
	}
}

//go:norace
func runC15(s *simrt.Sim) {
	tp := s.Tape
	faults := simrt.Mode() != "nofault"
	s.SetSticky([]int{2, 4, 10}[tp.Draw(3, "sched.strategy")])
	s.SetMapOrder(tp.Draw(3, "maporder"))
	s.SetSelectOrder(tp.Draw(3, "selectorder"))
	h := &c15{s: s}
	h.net = simnet.New(s)
	if faults {
		h.net.Seg = []int{0, 3}[tp.Draw(2, "net.seg")]
	}
	// initial configuration = routing version 0 + balancing version 0, in the node's own conf dirs
	root := confRoot()
	c15writeRouting(filepath.Join(root, "server_data_conf"), 0, false)
	c15writeBalancing(filepath.Join(root, "cluster_conf"), 0, false)
	n, err := startNodeFiles(s, h.net, nil)
	if err != nil {
		s.FailK("C15.start", "node-start-failed", "node did not start: %v", err)
		return
	}
	h.n = n
	// listeners for every backend address of every balancing version
	maxU := 4
	seen := map[string]bool{}
	var lsn []*simnet.Listener
	for ci := range c15clusters {
		for sub := 1; sub <= 3; sub++ {
			addrs := []string{fmt.Sprintf("10.15.%d.250:8000", ci*16+sub)}
			for u := 0; u <= maxU; u++ {
				for k := 0; k < 2; k++ {
					addrs = append(addrs, c15addr(ci, sub, u, k))
				}
			}
			for _, a := range addrs {
				if !seen[a] {
					seen[a] = true
					l := h.net.Listen(a)
					lsn = append(lsn, l)
					simrt.GoNamed("backend.accept", a, h.backendLoop(l, a))
				}
			}
		}
	}
	nrel := tp.Range(1, 2, "n_reloaders")
	h.plan = make([][]c15reload, nrel)
	h.reloads = make([][]c15reload, nrel)
	nextR, nextB := 1, 1
	for i := 0; i < nrel; i++ {
		k := tp.Range(1, 4, "n_reloads")
		for j := 0; j < k; j++ {
			r := c15reload{}
			if tp.Chance(1, 2, "reload.domain") {
				r.domain, r.version = "routing", nextR
				nextR++
			} else {
				r.domain, r.version = "balancing", nextB%(maxU+1)
				nextB++
			}
			r.torn = faults && tp.Chance(1, 5, "reload.torn")
			h.plan[i] = append(h.plan[i], r)
		}
	}
	nconn := tp.Range(1, 3, "n_conns")
	h.reqs = make([][]c15req, nconn)
	for ci := 0; ci < nconn; ci++ {
		h.nreq = append(h.nreq, tp.Range(1, 6, "n_requests"))
		sl := make([]bool, h.nreq[ci])
		for k := range sl {
			sl[k] = faults && tp.Chance(1, 4, "slow_backend")
		}
		h.slow = append(h.slow, sl)
	}
	var tasks []*simrt.Task
	for i := 0; i < nrel; i++ {
		tasks = append(tasks, simrt.GoNamed("reloader", i, h.reloader(i)))
	}
	for ci := 0; ci < nconn; ci++ {
		tasks = append(tasks, simrt.GoNamed("client", ci, h.client(ci)))
	}
	simrt.Join(tasks...)
	simrt.Sleep(time.Second)
	for _, l := range lsn {
		l.Close()
	}
	simrt.Sleep(50 * time.Millisecond)
	if s.Failed() {
		return
	}
	h.check()
}

//go:norace
func (h *c15) check() {
	s := h.s
	ps := h.n.srv.serverStatus.ProxyState
	if n := ps.PanicClientConnServe.Get() + ps.PanicBackendRead.Get() + ps.PanicBackendWrite.Get(); n > 0 {
		s.FailK("C15.panic", "recovered-panic-in-node", "%d panic(s) were recovered inside the node while reloads ran", n)
		return
	}
	// once every reload has returned, what is in force belongs to one routing version:
	// the published ServerDataConf, the transports built from its cluster_conf and the
	// retry budgets handed to the balancers
	if !h.finalState() {
		return
	}
	var rel []c15reload
	for _, rs := range h.reloads {
		rel = append(rel, rs...)
	}
	var sample []string
	for _, r := range rel {
		s.Checked(1)
		sample = append(sample, fmt.Sprintf("%s->%d torn=%v err=%v", r.domain, r.version, r.torn, r.err != nil))
		if r.torn && r.err == nil {
			s.FailK("C15.failed_reload", "torn-config-accepted", "reload of a %s configuration whose file is cut in the middle reported success", r.domain)
			return
		}
		if !r.torn && r.err != nil {
			s.FailK("C15.reload", "valid-reload-failed", "reload of a valid %s configuration (version %d) failed: %v", r.domain, r.version, r.err)
			return
		}
	}
	// admissible versions of a domain during [inv, ret] of a request
	admissible := func(domain string, inv, ret uint64) map[int]bool {
		ok := map[int]bool{}
		var rs []c15reload
		for _, r := range rel {
			if r.domain == domain && !r.torn {
				rs = append(rs, r)
			}
		}
		// version 0 is current until some reload of the domain has returned
		cur0 := true
		for _, r := range rs {
			if r.ret < inv {
				cur0 = false
			}
		}
		if cur0 {
			ok[0] = true
		}
		for _, r := range rs {
			if r.inv > ret {
				continue // not started before the request ended
			}
			// superseded for sure only if another reload of the domain started after r returned and returned before the request began
			superseded := false
			for _, q := range rs {
				if q.inv > r.ret && q.ret < inv {
					superseded = true
				}
			}
			if !superseded {
				ok[r.version] = true
			}
		}
		return ok
	}
	for ci, list := range h.reqs {
		for _, r := range list {
			s.Checked(1)
			if r.slow {
				// the timeout in force is the one of the snapshot the request started with
				rv := admissible("routing", r.inv, r.ret)
				okOutcome := false
				for v := range rv {
					if (r.status == 200) == (c15hdrTimeout(v) > c15slowMs) {
						okOutcome = true
					}
				}
				if !okOutcome {
					s.FailK("C15.inflight", "outcome-of-no-admissible-version", "request %d (backend answers after %d ms) ended with status %d; response-header timeouts of the routing versions admissible during the request: %v", r.id, c15slowMs, r.status, timeoutsOf(rv))
					return
				}
				s.Probe("c15_slow_request_checked")
				if r.status != 200 {
					continue
				}
			}
			if r.status != 200 || r.backend == "" {
				s.FailK("C15.served", "request-failed-during-reload", "conn %d request %d: every configuration version can serve it, yet the client got status %d (%q)", ci, r.id, r.status, r.raw)
				return
			}
			// backend address -> cluster index, sub, balancing versions it belongs to
			var a, b, c, d int
			fmt.Sscanf(r.backend, "10.15.%d.%d:%d", &a, &b, &c)
			_ = d
			clusterIdx, sub := a/16, a%16
			cl := c15clusters[clusterIdx]
			rv := admissible("routing", r.inv, r.ret)
			okRoute := false
			for v := range rv {
				if fmt.Sprintf("cl%d", v%3) == cl {
					okRoute = true
				}
			}
			if !okRoute {
				s.FailK("C15.routing", "route-from-no-single-version", "request %d was forwarded to cluster %s; routing versions admissible during the request: %v (a mix of host table and route table from different versions?)", r.id, cl, keysOf(rv))
				return
			}
			bv := admissible("balancing", r.inv, r.ret)
			okBal := false
			for u := range bv {
				inSubs := false
				for _, su := range c15subs(u) {
					if su == sub {
						inSubs = true
					}
				}
				if !inSubs {
					continue
				}
				if b == 250 {
					okBal = true
				}
				for k := 0; k < 2; k++ {
					if c15addr(clusterIdx, sub, u, k) == r.backend {
						okBal = true
					}
				}
			}
			if !okBal {
				s.FailK("C15.balancing", "backend-from-no-admissible-version", "request %d went to backend %s (sub-cluster s%d of %s); balancing versions admissible during the request: %v", r.id, r.backend, sub, cl, keysOf(bv))
				return
			}
			s.Probe("c15_request_checked")
		}
	}
	s.Sample = map[string]interface{}{"reloads": sample, "requests": len(h.reqs)}
}

func keysOf(m map[int]bool) []int {
	var r []int
	for k := range m {
		r = append(r, k)
	}
	for i := 1; i < len(r); i++ {
		for j := i; j > 0 && r[j] < r[j-1]; j-- {
			r[j], r[j-1] = r[j-1], r[j]
		}
	}
	return r
}

//go:norace
func (h *c15) finalState() bool {
	s := h.s
	srv := h.n.srv
	sc := srv.GetServerConf()
	ver := sc.ClusterTable.GetVersions().ClusterConfVer
	var v int
	if _, err := fmt.Sscanf(ver, "r%d", &v); err != nil {
		s.FailK("C15.final", "final-version-unreadable", "published cluster_conf version %q", ver)
		return false
	}
	for _, cl := range []string{fmt.Sprintf("cl%d", v%3), "clX"} {
		s.Checked(1)
		srv.ReverseProxy.tsMu.RLock()
		tr, _ := srv.ReverseProxy.transports[cl].(*bfe_http.Transport)
		srv.ReverseProxy.tsMu.RUnlock()
		if tr == nil {
			s.FailK("C15.final", "final-transport-missing", "no transport for cluster %s after the reloads", cl)
			return false
		}
		if tr.MaxIdleConnsPerHost != 1+v%3 {
			s.FailK("C15.final", "final-transport-of-other-version", "after all reloads returned the published routing configuration is %s (MaxIdleConnsPerHost %d) but the transport of %s was built with MaxIdleConnsPerHost %d: requests are now served under a mix of two versions for good", ver, 1+v%3, cl, tr.MaxIdleConnsPerHost)
			return false
		}
		bal, err := srv.balTable.Lookup(cl)
		if err != nil {
			s.FailK("C15.final", "final-balancer-missing", "no balancer for cluster %s after the reloads", cl)
			return false
		}
		if got := bal.VerifRetryMax(); got != 1+v%4 {
			s.FailK("C15.final", "final-retry-budget-of-other-version", "after all reloads returned the published routing configuration is %s (RetryMax %d) but the balancer of %s runs with RetryMax %d", ver, 1+v%4, cl, got)
			return false
		}
	}
	s.Probe("c15_final_state_checked")
	return true
}

func timeoutsOf(m map[int]bool) []string {
	var r []string
	for _, v := range keysOf(m) {
		r = append(r, fmt.Sprintf("r%d=%dms", v, c15hdrTimeout(v)))
	}
	return r
}
