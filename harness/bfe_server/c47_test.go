//go:build verif
// +build verif

package bfe_server

import (
	"bytes"
	"fmt"
	"strings"
	"time"

	"verif/simrt"
	"verif/simrt/href"
	"verif/simrt/simnet"
)

// C47 (WebSocket leg): a client upgrades through the whole node to a scripted backend; both ends
// then stream seeded payloads in seeded chunkings, possibly starting in the very segment that
// carries the upgrade request / the 101 answer; one end closes at a seeded moment. Every byte must
// arrive at the other end, in order and unchanged, and a close must reach the other end.

func pattern47(n int, salt byte) []byte {
	b := make([]byte, n)
	for i := range b {
		b[i] = byte(i) ^ byte(i>>8)*29 ^ salt
	}
	return b
}

//go:norace
func runC47(s *simrt.Sim) {
	tp := s.Tape
	e := &eng{s: s, tp: tp, focus: "C47", plans: map[int]*reqPlan{}, nAttempt: map[int]int{}, pending: map[string]*attemptRec{}}
	e.faults = simrt.Mode() != "nofault"
	s.SetSticky([]int{3, 10, 30}[tp.Draw(3, "sched.strategy")])
	s.SetSelectOrder(tp.Draw(3, "selectorder"))
	e.net = simnet.New(s)
	if e.faults {
		e.net.Seg = []int{0, 2, 6}[tp.Draw(3, "net.seg")]
	}
	e.conf = e.genConf(1)
	n, err := startNode(s, e.net, e.conf, nil)
	if err != nil {
		s.FailK("C47.start", "node-start-failed", "%v", err)
		return
	}
	e.n = n
	// payloads
	c2b := pattern47([]int{0, 1, 300, 20000, 120000}[tp.Draw(5, "c2b.class")], 1)
	b2c := pattern47([]int{0, 1, 300, 20000, 120000}[tp.Draw(5, "b2c.class")], 2)
	cEarly := tp.Draw(minI(len(c2b), 2000)+1, "c2b.early") // bytes sent in the same write as the upgrade request
	bEarly := tp.Draw(minI(len(b2c), 2000)+1, "b2c.early") // bytes sent in the same write as the 101 answer
	closer := tp.Draw(2, "closer")                         // 0 client closes first, 1 backend
	longIdle := e.faults && tp.Chance(1, 2, "long_idle")
	var backendGot, clientGot []byte
	var backendSawClose, clientSawClose bool
	var closedAt, sawCloseAt time.Duration
	var upgradeSeen *href.Message
	var lsn []*simnet.Listener
	backendDone := false
	for _, cl := range e.conf.Clusters {
		for _, sn := range sortedSubNames(cl) {
			for _, b := range cl.Subs[sn] {
				l := e.net.Listen(b.AddrInfo())
				lsn = append(lsn, l)
				simrt.GoNamed("ws.backend", b.AddrInfo(), func() {
					c, err := l.Accept()
					if err != nil {
						return
					}
					conn := c.(*simnet.Conn)
					defer func() { backendDone = true }()
					defer conn.Close()
					var buf []byte
					tmp := make([]byte, 4096)
					for {
						m, used, perr := href.ParseRequest(buf)
						if perr == nil {
							upgradeSeen = m
							backendGot = append(backendGot, buf[used:]...) // bytes behind the request are payload already
							break
						}
						if perr != href.ErrIncomplete {
							return
						}
						k, err := conn.Read(tmp)
						buf = append(buf, tmp[:k]...)
						if err != nil {
							return
						}
					}
					hs := []byte("HTTP/1.1 101 Switching Protocols\r\nUpgrade: websocket\r\nConnection: Upgrade\r\nSec-WebSocket-Accept: x\r\n\r\n")
					conn.Write(append(hs, b2c[:bEarly]...))
					wr := simrt.GoNamed("ws.backend.writer", nil, func() {
						rest := b2c[bEarly:]
						for len(rest) > 0 {
							k := 1 + tp.Draw(minI(len(rest), 9000), "b2c.chunk")
							if _, err := conn.Write(rest[:k]); err != nil {
								return
							}
							rest = rest[k:]
							if tp.Chance(1, 5, "b2c.pause") {
								simrt.Sleep(time.Duration(1+tp.Draw(30, "b2c.pause_ms")) * time.Millisecond)
							}
							if longIdle && len(rest) > 0 && tp.Chance(1, 3, "b2c.idle") {
								// a tunnel may sit idle for a long time and then carry data again
								s.Fault("long_idle")
								simrt.Sleep(time.Duration(1500+tp.Draw(60000, "b2c.idle_ms")) * time.Millisecond)
							}
						}
					})
					conn.SetReadDeadline(time.Now().Add(20 * time.Minute))
					for len(backendGot) < len(c2b) {
						k, err := conn.Read(tmp)
						backendGot = append(backendGot, tmp[:k]...)
						if err != nil {
							backendSawClose = true
							return
						}
					}
					simrt.Join(wr)
					if closer == 1 {
						// wait until the client has everything, then hang up
						simrt.WaitUntil(func() bool { return len(clientGot) >= len(b2c) || clientSawClose })
						simrt.Sleep(time.Duration(tp.Draw(50, "close.delay_ms")) * time.Millisecond)
						s.Fault("backend_closes_first")
						closedAt = s.Now()
						return
					}
					// the client closes first: the tunnel must hang up on us
					conn.SetReadDeadline(time.Now().Add(30 * time.Minute))
					for {
						k, err := conn.Read(tmp)
						backendGot = append(backendGot, tmp[:k]...)
						if err != nil {
							if ne, ok := err.(interface{ Timeout() bool }); !(ok && ne.Timeout()) {
								backendSawClose = true
								sawCloseAt = s.Now()
							}
							return
						}
					}
				})
			}
		}
	}
	var respHdr *href.Message
	client := simrt.GoNamed("ws.client", nil, func() {
		conn := e.n.connect("192.0.2.10:5000")
		defer conn.Close()
		req := "GET /chat HTTP/1.1\r\nHost: h0.example\r\nUpgrade: websocket\r\nConnection: Upgrade\r\nSec-WebSocket-Key: dGhlIHNhbXBsZSBub25jZQ==\r\nSec-WebSocket-Version: 13\r\n\r\n"
		conn.Write(append([]byte(req), c2b[:cEarly]...))
		wr := simrt.GoNamed("ws.client.writer", nil, func() {
			rest := c2b[cEarly:]
			for len(rest) > 0 {
				k := 1 + tp.Draw(minI(len(rest), 9000), "c2b.chunk")
				if _, err := conn.Write(rest[:k]); err != nil {
					return
				}
				rest = rest[k:]
				if tp.Chance(1, 5, "c2b.pause") {
					simrt.Sleep(time.Duration(1+tp.Draw(30, "c2b.pause_ms")) * time.Millisecond)
				}
				if longIdle && len(rest) > 0 && tp.Chance(1, 3, "c2b.idle") {
					s.Fault("long_idle")
					simrt.Sleep(time.Duration(1500+tp.Draw(60000, "c2b.idle_ms")) * time.Millisecond)
				}
			}
		})
		var buf []byte
		tmp := make([]byte, 4096)
		conn.SetReadDeadline(time.Now().Add(20 * time.Minute))
		for respHdr == nil {
			if i := bytes.Index(buf, []byte("\r\n\r\n")); i >= 0 {
				m, _, perr := href.ParseResponse(append(append([]byte(nil), buf[:i+4]...)), "GET", false)
				if perr != nil && perr != href.ErrIncomplete {
					respHdr = &href.Message{Status: -1}
				} else if m != nil {
					respHdr = m
				} else {
					respHdr = &href.Message{Status: 101}
				}
				clientGot = append(clientGot, buf[i+4:]...)
				break
			}
			k, err := conn.Read(tmp)
			buf = append(buf, tmp[:k]...)
			if err != nil {
				clientSawClose = true
				return
			}
		}
		for len(clientGot) < len(b2c) {
			k, err := conn.Read(tmp)
			clientGot = append(clientGot, tmp[:k]...)
			if err != nil {
				clientSawClose = true
				return
			}
		}
		simrt.Join(wr)
		if closer == 0 {
			simrt.WaitUntil(func() bool { return len(backendGot) >= len(c2b) || backendSawClose || backendDone })
			simrt.Sleep(time.Duration(tp.Draw(50, "close.delay_ms")) * time.Millisecond)
			s.Fault("client_closes_first")
			closedAt = s.Now()
			return
		}
		conn.SetReadDeadline(time.Now().Add(30 * time.Minute))
		for {
			k, err := conn.Read(tmp)
			clientGot = append(clientGot, tmp[:k]...)
			if err != nil {
				if ne, ok := err.(interface{ Timeout() bool }); !(ok && ne.Timeout()) {
					clientSawClose = true
					sawCloseAt = s.Now()
				}
				return
			}
		}
	})
	simrt.Join(client)
	simrt.WaitUntil(func() bool { return backendDone || upgradeSeen == nil })
	simrt.Sleep(time.Second)
	for _, l := range lsn {
		l.Close()
	}
	simrt.Sleep(50 * time.Millisecond)
	s.Note("op", fmt.Sprintf("client->backend %d bytes (%d with the upgrade), backend->client %d bytes (%d with the 101), closer=%d", len(c2b), cEarly, len(b2c), bEarly, closer))
	if s.Failed() {
		return
	}
	s.Checked(1)
	ps := e.n.srv.serverStatus.ProxyState
	if k := ps.PanicClientConnServe.Get(); k > 0 {
		s.FailK("C47.panic", "recovered-panic-in-node", "%d panic(s) recovered", k)
		return
	}
	if upgradeSeen == nil {
		s.FailK("C47.upgrade", "upgrade-not-forwarded", "the backend never received the upgrade request (client got status %v)", respHdr)
		return
	}
	if respHdr == nil || respHdr.Status != 101 {
		s.FailK("C47.upgrade", "switching-protocols-not-relayed", "the backend answered 101, the client got %v", respHdr)
		return
	}
	if !strings.EqualFold(strings.Join(upgradeSeen.Get("Upgrade"), ","), "websocket") {
		s.FailK("C47.upgrade", "upgrade-header-lost", "upgrade request at the backend: %v", upgradeSeen.Fields)
		return
	}
	if !bytes.Equal(backendGot, c2b) {
		s.FailK("C47.c2b", "client-bytes-altered", "client sent %d bytes (%d in the segment of the upgrade request), the backend received %d; first difference at %d", len(c2b), cEarly, len(backendGot), firstDiff47(backendGot, c2b))
		return
	}
	if !bytes.Equal(clientGot, b2c) {
		s.FailK("C47.b2c", "backend-bytes-altered", "backend sent %d bytes (%d in the segment of the 101 answer), the client received %d; first difference at %d", len(b2c), bEarly, len(clientGot), firstDiff47(clientGot, b2c))
		return
	}
	if closer == 0 && (!backendSawClose || sawCloseAt-closedAt > 30*time.Second) {
		s.FailK("C47.close", "backend-side-left-open", "the client closed its connection at %v; the backend's connection was closed=%v at %v", closedAt, backendSawClose, sawCloseAt)
		return
	}
	if closer == 1 && (!clientSawClose || sawCloseAt-closedAt > 30*time.Second) {
		s.FailK("C47.close", "client-side-left-open", "the backend closed its connection at %v; the client's connection was closed=%v at %v", closedAt, clientSawClose, sawCloseAt)
		return
	}
	s.Probe("ws_tunnel_checked")
	if cEarly > 0 {
		s.Probe("ws_early_client_data")
	}
	if bEarly > 0 {
		s.Probe("ws_early_backend_data")
	}
}

func firstDiff47(a, b []byte) int {
	n := minI(len(a), len(b))
	for i := 0; i < n; i++ {
		if a[i] != b[i] {
			return i
		}
	}
	return n
}
