//go:build verif
// +build verif

package bfe_server

import (
	"bytes"
	"fmt"
	"net/url"
	"sort"
	"strings"
	"time"

	"verif/simrt"
	"verif/simrt/href"
	"verif/simrt/simnet"

	"github.com/bfenetworks/bfe/bfe_balance/backend"
)

// ---- workload description --------------------------------------------------

// attempt kinds (what the scripted backend does with one attempt)
const (
	akRespond        = iota // full response per plan
	akDialRefuse            // connect refused
	akDialTimeout           // connect times out
	akResetOnAccept         // accept, then RST before reading anything
	akResetAfterReq         // read the request, then RST without a byte of response
	akCloseAfterReq         // read the request, then FIN without a byte of response
	akNoResponse            // read the request, never answer (response-header timeout)
	akResetMidHeader        // RST in the middle of the response head
	akResetMidBody          // RST after part of the body
	akCloseMidBody          // FIN after part of a Content-Length body
	akKinds
)

var akNames = []string{"respond", "dial_refuse", "dial_timeout", "reset_on_accept", "reset_after_request", "close_after_request",
	"no_response", "reset_mid_header", "reset_mid_body", "close_mid_body"}

type respPlan struct {
	Status   int
	Fields   []href.Field // end-to-end + whatever the backend sends
	Body     []byte
	Framing  string // length | chunked | close
	Chunks   []int  // chunk sizes for chunked
	Trailers []href.Field
	Interim  int   // 0 or 100/102: an interim response first
	SlowMs   []int // delay before each body piece
}

type attemptPlan struct {
	Kind int
	Resp respPlan
	Cut  int // for mid-header/mid-body: how many bytes of that part are sent
}

type reqPlan struct {
	ID       int
	Conn     int
	Method   string
	Proto    string
	Host     string
	Path     string
	Fields   []href.Field
	Body     []byte
	Chunked  bool
	Attempts []attemptPlan
	Raw      []byte // bytes the client sends
	// retry settings of the request's cluster in force when the request was sent
	// (a reload between two requests may change them)
	RetryMax, CrossRetry, RetryLevel int
	Bad                              bool // BFE must refuse it by itself (4xx, connection closed)
}

// attemptRec is what the scripted backend side observed for one attempt.
type attemptRec struct {
	ReqID    int
	Idx      int
	Backend  string // addr:port
	Sub      string
	Kind     int
	Dialed   bool
	Req      *href.Message // request as parsed by the reference parser (nil if never complete)
	ParseErr error
	RawReq   []byte
	BodyRead int
	Seq      uint64
	Reused   bool
	Full     bool // the scripted backend wrote its complete response
	Partial  int  // bytes of payload written before a mid-body cut
}

type clientRec struct {
	Conn      int
	Sent      []*reqPlan
	Raw       []byte // everything received
	Closed    bool   // server closed the connection (EOF/reset seen)
	Reset     bool
	TimedOut  bool
	Aborted   bool // the client itself closed the connection in the middle of a response
	Responses []*href.Message
	ParseErr  error
}

type eng struct {
	s        *simrt.Sim
	tp       *simrt.Tape
	focus    string
	net      *simnet.Net
	n        *node
	conf     *nconf
	plans    map[int]*reqPlan
	byConn   [][]*reqPlan
	cur      []*reqPlan // request currently in flight per conn (one cluster per conn)
	attempts []*attemptRec
	nAttempt map[int]int
	addrConn map[string]int    // backend addr -> client conn index
	addrSub  map[string]string // backend addr -> sub-cluster
	clients  []*clientRec
	backends []*backend.BfeBackend
	lsn      []*simnet.Listener
	tasks    []*simrt.Task
	faults   bool
	pending  map[string]*attemptRec // fresh dial (by the dialing side's address) awaiting its request
	filt     *filters
	peerAddr []string       // socket peer address per client conn (C29)
	seenAddr map[int]string // req.ClientAddr observed by a generated filter, per request id
	abort    bool           // clients may close their connection in the middle of a response (C07, C54)
	spoof    bool           // C29: address-spoofing headers
	accEnc   bool           // C54: Accept-Encoding variants
	hostile  bool           // C25: hostile header names / values / targets
}

// ---- generation ---------------------------------------------------------------

var hopNames = []string{"Connection", "Keep-Alive", "Proxy-Authenticate", "Proxy-Authorization", "Te", "Trailer", "Transfer-Encoding", "Upgrade"}

func (e *eng) genConf(nconn int) *nconf {
	tp := e.tp
	c := &nconf{Hosts: map[string]string{}}
	e.addrConn = map[string]int{}
	e.addrSub = map[string]string{}
	for ci := 0; ci < nconn; ci++ {
		name := fmt.Sprintf("cl%d", ci)
		cl := &ncluster{Name: name, Subs: map[string][]*nbackend{}, SubWeights: map[string]int{},
			RetryMax: tp.Draw(3, "retry_max"), CrossRetry: tp.Draw(3, "cross_retry"), RetryLevel: tp.Draw(2, "retry_level"),
			MaxIdle: []int{0, 2}[tp.Draw(2, "max_idle")], RespHdrTO: []int{200, 2000}[tp.Draw(2, "resp_hdr_to")], ConnTO: 500,
			ReadCliTO: 30000, WriteCliTO: 60000, ReadAgain: []int{1000, 30000}[tp.Draw(2, "read_again")], ReqBuf: []int{0, 64, 512}[tp.Draw(3, "req_buf")],
			ResFlush: []int{-1, -1, 0, 5, 50}[tp.Draw(5, "res_flush")], CancelOnClose: tp.Chance(1, 2, "cancel_on_client_close")}
		nsub := tp.Range(1, 2, "n_subs")
		for si := 0; si < nsub; si++ {
			sn := fmt.Sprintf("sub%d.%s", si, name)
			nb := tp.Range(1, 2, "n_backends")
			for bi := 0; bi < nb; bi++ {
				b := &nbackend{Name: fmt.Sprintf("b%d%d%d", ci, si, bi), Addr: fmt.Sprintf("10.1.%d.%d", ci, 1+si*10+bi), Port: 8000 + bi, Weight: tp.Range(1, 3, "weight")}
				cl.Subs[sn] = append(cl.Subs[sn], b)
				e.addrConn[b.AddrInfo()] = ci
				e.addrSub[b.AddrInfo()] = sn
			}
			cl.SubWeights[sn] = tp.Range(1, 5, "sub_weight")
		}
		if tp.Chance(1, 4, "blackhole") {
			cl.SubWeights["GSLB_BLACKHOLE"] = 0 // the stock layout: a blackhole entry with weight 0
		}
		c.Clusters = append(c.Clusters, cl)
		c.Hosts[fmt.Sprintf("h%d.example", ci)] = name
	}
	return c
}

func (e *eng) genBody(max int) []byte {
	n := e.tp.Draw(max+1, "body_len")
	b := make([]byte, n)
	for i := range b {
		b[i] = byte('a' + (i*7+n)%26)
	}
	return b
}

func (e *eng) genResp(method string) respPlan {
	tp := e.tp
	r := respPlan{Status: []int{200, 200, 200, 201, 204, 304, 404, 500, 503, 301}[tp.Draw(10, "status")]}
	if e.accEnc && tp.Chance(2, 3, "status_ok_for_compress") {
		r.Status = 200 // C54: most responses should be ones the compress module acts on
	}
	r.Fields = []href.Field{{"X-Backend-Id", fmt.Sprintf("v%d", tp.Draw(1000, "hdr_val"))}}
	if tp.Chance(1, 3, "resp_dup_hdr") {
		r.Fields = append(r.Fields, href.Field{"Set-Cookie", "a=1"}, href.Field{"Set-Cookie", "b=2; Path=/"})
	}
	if tp.Chance(1, 4, "resp_ctype") {
		r.Fields = append(r.Fields, href.Field{"Content-Type", "application/x-sim"})
	}
	if tp.Chance(1, 5, "resp_cache") {
		r.Fields = append(r.Fields, href.Field{"Cache-Control", "max-age=3, private"}, href.Field{"Etag", "\"e1\""})
	}
	bodyless := r.Status == 204 || r.Status == 304
	if !bodyless {
		r.Body = e.genBody([]int{0, 10, 300, 5000}[tp.Draw(4, "resp_body_class")])
		if e.accEnc && len(r.Body) < 300 && tp.Chance(2, 3, "body_for_compress") {
			r.Body = e.genBody(300 + tp.Draw(20000, "compress_body"))
		}
	}
	switch tp.Draw(3, "resp_framing") {
	case 0:
		r.Framing = "length"
	case 1:
		r.Framing = "chunked"
		left := len(r.Body)
		for left > 0 {
			k := 1 + tp.Draw(minI(left, 700), "chunk")
			r.Chunks = append(r.Chunks, k)
			left -= k
		}
		if tp.Chance(1, 4, "trailers") {
			r.Trailers = []href.Field{{"X-Trailer-Sum", "t1"}}
		}
	case 2:
		r.Framing = "close"
	}
	if bodyless {
		r.Framing = "length"
		if tp.Chance(1, 2, "bodyless_nocl") {
			r.Framing = "none"
		}
	}
	if e.faults && tp.Chance(1, 6, "interim") {
		r.Interim = 100
	}
	if e.faults && tp.Chance(1, 4, "slow_body") {
		r.SlowMs = []int{tp.Draw(50, "slow_ms"), tp.Draw(500, "slow_ms")}
	}
	return r
}

func minI(a, b int) int {
	if a < b {
		return a
	}
	return b
}

func (e *eng) genReq(id, conn int) *reqPlan {
	tp := e.tp
	p := &reqPlan{ID: id, Conn: conn, Proto: "HTTP/1.1", Host: fmt.Sprintf("h%d.example", conn)}
	p.Method = []string{"GET", "GET", "GET", "HEAD", "POST", "PUT"}[tp.Draw(6, "method")]
	if tp.Chance(1, 8, "http10") {
		p.Proto = "HTTP/1.0"
	}
	p.Path = fmt.Sprintf("/r%d/x?q=%d", id, tp.Draw(50, "query"))
	if p.Method == "POST" || p.Method == "PUT" {
		p.Body = e.genBody([]int{0, 5, 200, 3000}[tp.Draw(4, "req_body_class")])
		p.Chunked = p.Proto == "HTTP/1.1" && tp.Chance(1, 3, "req_chunked")
	}
	p.Fields = append(p.Fields, href.Field{"X-Req-Id", fmt.Sprintf("%d", id)})
	if (p.Method == "POST" || p.Method == "PUT") && p.Proto == "HTTP/1.1" && len(p.Body) > 0 && tp.Chance(1, 4, "expect_100") {
		// the client does not wait for 100 Continue: head and body go out together
		p.Fields = append(p.Fields, href.Field{"Expect", "100-continue"})
		e.s.Probe("expect_100_request")
	}
	if tp.Chance(1, 8, "sse") {
		p.Fields = append(p.Fields, href.Field{"Accept", "text/event-stream"})
	} else if tp.Chance(1, 3, "ua") {
		p.Fields = append(p.Fields, href.Field{"User-Agent", "sim/1.0"}, href.Field{"Accept", "*/*"})
	}
	if e.hostile {
		// C25: bytes that must not be able to add fields or messages downstream
		switch tp.Draw(9, "hostile") {
		case 0:
			p.Fields = append(p.Fields, href.Field{"X-Inj", "a\rX-Injected: 1"})
		case 1:
			p.Fields = append(p.Fields, href.Field{"X-Inj", "a\x00b"})
		case 2:
			p.Fields = append(p.Fields, href.Field{"X-Inj", "caf\xc3\xa9 \xff\xfe"})
		case 3:
			p.Fields = append(p.Fields, href.Field{"X-Fold", "line1\r\n continued: not-a-header"})
		case 4:
			p.Path = fmt.Sprintf("/r%d/x%%0d%%0aX-Injected:%%201?q=1", id)
		case 5:
			p.Path = fmt.Sprintf("/r%d/\rX-Injected:1", id)
		case 6:
			p.Fields = append(p.Fields, href.Field{"X-Dup", "1"}, href.Field{"x-dup", "2"}, href.Field{"X-DUP", "3"})
		case 7:
			p.Fields = append(p.Fields, href.Field{"X-Long", strings.Repeat("v", 3000)})
		case 8:
			p.Fields = append(p.Fields, href.Field{"X-Tab", "a\tb  c"})
		}
		e.s.Probe("hostile_request")
	}
	if e.spoof {
		// C29: headers a client could use to pretend another address
		peerIP := ""
		if conn < len(e.peerAddr) {
			peerIP = e.peerAddr[conn][:strings.LastIndex(e.peerAddr[conn], ":")]
		}
		for _, h := range []string{"X-Real-Ip", "X-Real-Port", "X-Forwarded-For", "X-Forwarded-Port", "Clientip", "X-Bfe-Ip"} {
			if tp.Chance(1, 2, "spoof_hdr") {
				// values: other addresses, junk, lists, and an address that only textually ends like the peer's
				vals := []string{"6.6.6.6", "10.9.9.9", "not-an-ip", "1.2.3.4, 5.6.7.8", "65000", "10.9.9.9, 2" + peerIP, "1" + peerIP}
				p.Fields = append(p.Fields, href.Field{h, vals[tp.Draw(len(vals), "spoof_val")]})
				if tp.Chance(1, 3, "spoof_repeat") {
					// the same field once more, possibly in another letter case
					n := []string{h, strings.ToLower(h), strings.ToUpper(h)}[tp.Draw(3, "spoof_case")]
					p.Fields = append(p.Fields, href.Field{n, vals[tp.Draw(len(vals), "spoof_val2")]})
				}
			}
		}
	}
	if e.accEnc {
		if tp.Chance(1, 2, "accept_encoding.plain") {
			p.Fields = append(p.Fields, href.Field{"Accept-Encoding", []string{"gzip", "br", "gzip, br"}[tp.Draw(3, "accept_encoding.plain_v")]})
		} else if v := []string{"", "gzip", "br", "gzip, br", "identity", "deflate", "gzip;q=0", "gzip;q=0.0", "br;q=0.00, gzip", "gzip;q=0.000, br;q=0.0", "gzip;Q=0, br;q=0", "gzip;q=0.5, br;q=0.1", "GZIP", "*;q=0"}[tp.Draw(14, "accept_encoding")]; v != "" {
			p.Fields = append(p.Fields, href.Field{"Accept-Encoding", v})
		}
	}
	// hop-by-hop material (C26): fixed list members and fields named by Connection
	if tp.Chance(1, 3, "hop") {
		h := hopNames[1+tp.Draw(len(hopNames)-1, "hop_which")]
		switch h {
		case "Transfer-Encoding": // only via a chunked body, handled by Chunked
		case "Upgrade":
			p.Fields = append(p.Fields, href.Field{"Upgrade", "h2c"})
		case "Te":
			p.Fields = append(p.Fields, href.Field{"Te", []string{"trailers", "gzip", "trailers, deflate"}[tp.Draw(3, "te_val")]})
		case "Trailer":
			p.Fields = append(p.Fields, href.Field{"Trailer", "X-Sum"})
		default:
			p.Fields = append(p.Fields, href.Field{h, "x1"})
		}
	}
	conn_tokens := []string{}
	if tp.Chance(1, 3, "conn_listed") {
		p.Fields = append(p.Fields, href.Field{"X-Hop-Private", "secret"})
		conn_tokens = append(conn_tokens, "X-Hop-Private")
	}
	if e.spoof && tp.Chance(1, 3, "conn_lists_addr_hdr") {
		// naming the address headers as connection options must not make BFE drop the ones it sets itself
		conn_tokens = append(conn_tokens, []string{"X-Real-Ip", "X-Forwarded-For", "X-Real-Port", "x-real-ip, x-forwarded-for"}[tp.Draw(4, "conn_addr_which")])
	}
	switch tp.Draw(4, "conn_hdr") {
	case 1:
		conn_tokens = append(conn_tokens, "keep-alive")
	case 2:
		conn_tokens = append(conn_tokens, "close")
	}
	if len(conn_tokens) > 0 {
		p.Fields = append(p.Fields, href.Field{"Connection", strings.Join(conn_tokens, ", ")})
	}
	// attempts
	na := 1
	if e.faults {
		na = 5
	}
	for a := 0; a < na; a++ {
		ap := attemptPlan{Kind: akRespond}
		if e.faults && tp.Chance(2, 5, "attempt_fault") {
			ap.Kind = 1 + tp.Draw(akKinds-1, "attempt_kind")
		} else if e.faults && e.focus == "C08" && tp.Chance(1, 2, "attempt_connect_fault") {
			// the retry budget is only used up by a run of failures: more connect-phase ones
			ap.Kind = []int{akDialRefuse, akDialTimeout}[tp.Draw(2, "attempt_connect_kind")]
		}
		ap.Resp = e.genResp(p.Method)
		ap.Cut = tp.Draw(40, "cut")
		if ap.Kind == akCloseMidBody && ap.Resp.Framing == "close" {
			// a FIN in the middle of a close-delimited body is not a detectable truncation
			// (it IS the end of that body): not a fault BFE could act on
			ap.Kind = akRespond
		}
		p.Attempts = append(p.Attempts, ap)
	}
	// wire form
	var b bytes.Buffer
	fmt.Fprintf(&b, "%s %s %s\r\nHost: %s\r\n", p.Method, p.Path, p.Proto, p.Host)
	for _, f := range p.Fields {
		fmt.Fprintf(&b, "%s: %s\r\n", f.Name, f.Value)
	}
	if p.Chunked {
		trailer := e.faults && tp.Chance(1, 3, "req_trailer")
		if trailer {
			b.WriteString("Trailer: X-Req-Sum\r\n")
		}
		b.WriteString("Transfer-Encoding: chunked\r\n\r\n")
		left := p.Body
		for len(left) > 0 {
			k := 1 + tp.Draw(minI(len(left), 500), "req_chunk")
			fmt.Fprintf(&b, "%x\r\n%s\r\n", k, left[:k])
			left = left[k:]
		}
		if trailer {
			// a trailer section: the request ends with the empty line after it
			fmt.Fprintf(&b, "0\r\nX-Req-Sum: %d\r\n\r\n", len(p.Body))
		} else {
			b.WriteString("0\r\n\r\n")
		}
	} else if p.Method == "POST" || p.Method == "PUT" {
		fmt.Fprintf(&b, "Content-Length: %d\r\n\r\n", len(p.Body))
		b.Write(p.Body)
	} else {
		b.WriteString("\r\n")
	}
	p.Raw = b.Bytes()
	return p
}

// ---- scripted backend ---------------------------------------------------------

func reqIDOf(target string) int {
	if !strings.HasPrefix(target, "/r") {
		return -1
	}
	n := 0
	i := 2
	for i < len(target) && target[i] >= '0' && target[i] <= '9' {
		n = n*10 + int(target[i]-'0')
		i++
	}
	if i == 2 {
		return -1
	}
	return n
}

// policy: verdict for every dial of the node toward a backend address.
func (e *eng) policy(d simnet.DialInfo) (simnet.Verdict, time.Duration) {
	if strings.HasSuffix(d.Task, "backend.check") {
		// the health checker probing a backend that was taken out: no request attempt
		if e.tp.Chance(2, 3, "health_probe_ok") {
			e.s.Note("dial", d.Addr+" (health probe: accepted)")
			e.s.Probe("health_probe_ok")
			return simnet.Accept, 0
		}
		e.s.Note("dial", d.Addr+" (health probe: refused)")
		return simnet.Refuse, 0
	}
	ci, ok := e.addrConn[d.Addr]
	if !ok || e.cur[ci] == nil {
		e.s.Note("dial", d.Addr+" (no request in flight)")
		return simnet.Accept, 0
	}
	p := e.cur[ci]
	idx := e.nAttempt[p.ID]
	e.nAttempt[p.ID]++
	ap := attemptPlan{Kind: akRespond}
	if idx < len(p.Attempts) {
		ap = p.Attempts[idx]
	}
	rec := &attemptRec{ReqID: p.ID, Idx: idx, Backend: d.Addr, Sub: e.addrSub[d.Addr], Kind: ap.Kind, Dialed: true}
	rec.Seq = e.s.Note("attempt", fmt.Sprintf("req %d attempt %d -> %s kind=%s (dial)", p.ID, idx, d.Addr, akNames[ap.Kind]))
	e.attempts = append(e.attempts, rec)
	switch ap.Kind {
	case akDialRefuse:
		return simnet.Refuse, 0
	case akDialTimeout:
		return simnet.Timeout, 0
	}
	e.pending[d.Local] = rec
	return simnet.Accept, 0
}

func (e *eng) acceptLoop(l *simnet.Listener, addr string) func() {
	return func() {
		for {
			c, err := l.Accept()
			if err != nil {
				return
			}
			conn := c.(*simnet.Conn)
			from := conn.RemoteAddr().String()
			rec := e.pending[from]
			delete(e.pending, from)
			simrt.GoNamed("backend.conn", addr, func() { e.serveBackendConn(conn, addr, rec) })
		}
	}
}

func (e *eng) serveBackendConn(c *simnet.Conn, addr string, first *attemptRec) {
	defer c.Close()
	var buf []byte
	for reqN := 0; ; reqN++ {
		var rec *attemptRec
		if reqN == 0 && first != nil {
			rec = first
		}
		if rec != nil && rec.Kind == akResetOnAccept {
			c.Reset()
			return
		}
		// read one request with the reference parser
		tmp := make([]byte, 2048)
		var m *href.Message
		var perr error
		n := 0
		for {
			m, n, perr = href.ParseRequest(buf)
			if perr != href.ErrIncomplete {
				break
			}
			k, err := c.Read(tmp)
			buf = append(buf, tmp[:k]...)
			if err != nil {
				if len(buf) > 0 && rec != nil {
					rec.RawReq = append([]byte(nil), buf...)
					rec.ParseErr = fmt.Errorf("connection ended inside a request: %v", err)
				}
				return
			}
			if rec == nil && len(buf) > 0 {
				// a request on a reused (idle) connection: a new attempt
				ci := e.addrConn[addr]
				p := e.cur[ci]
				rec = &attemptRec{ReqID: -1, Backend: addr, Sub: e.addrSub[addr], Kind: akRespond, Reused: true}
				if p != nil {
					idx := e.nAttempt[p.ID]
					e.nAttempt[p.ID]++
					rec.ReqID, rec.Idx = p.ID, idx
					if idx < len(p.Attempts) {
						rec.Kind = p.Attempts[idx].Kind
						if rec.Kind == akDialRefuse || rec.Kind == akDialTimeout || rec.Kind == akResetOnAccept {
							rec.Kind = akRespond // no dial happens on a reused connection
						}
					}
				}
				rec.Seq = e.s.Note("attempt", fmt.Sprintf("req %d attempt %d -> %s kind=%s (reused conn)", rec.ReqID, rec.Idx, addr, akNames[rec.Kind]))
				e.attempts = append(e.attempts, rec)
			}
		}
		if rec == nil {
			rec = &attemptRec{ReqID: -1, Backend: addr, Sub: e.addrSub[addr], Kind: akRespond}
			e.attempts = append(e.attempts, rec)
		}
		if perr != nil {
			rec.ParseErr = perr
			rec.RawReq = append([]byte(nil), buf...)
			return
		}
		rec.Req = m
		rec.RawReq = append([]byte(nil), buf[:n]...)
		rec.BodyRead = len(m.Body)
		buf = buf[n:]
		id := reqIDOf(m.Target)
		if rec.ReqID != id {
			// a request the harness did not expect here (e.g. body bytes re-parsed as a request)
			rec.ReqID = id
		}
		p := e.plans[id]
		var ap attemptPlan
		if p != nil && rec.Idx < len(p.Attempts) {
			ap = p.Attempts[rec.Idx]
		} else {
			ap = attemptPlan{Kind: akRespond, Resp: respPlan{Status: 200, Framing: "length", Body: []byte("default")}}
		}
		ap.Kind = rec.Kind
		keep := e.respond(c, m, ap, rec)
		if !keep {
			return
		}
	}
}

// respond writes the planned response; returns whether the connection can be reused.
func (e *eng) respond(c *simnet.Conn, m *href.Message, ap attemptPlan, rec *attemptRec) bool {
	switch ap.Kind {
	case akResetAfterReq:
		c.Reset()
		return false
	case akCloseAfterReq:
		return false
	case akNoResponse:
		simrt.Sleep(30 * time.Second)
		return false
	}
	r := ap.Resp
	var head bytes.Buffer
	if r.Interim != 0 {
		fmt.Fprintf(&head, "HTTP/1.1 %d Continue\r\n\r\n", r.Interim)
	}
	fmt.Fprintf(&head, "HTTP/1.1 %d %s\r\n", r.Status, "Sim")
	for _, f := range r.Fields {
		fmt.Fprintf(&head, "%s: %s\r\n", f.Name, f.Value)
	}
	body := r.Body
	if m.Method == "HEAD" {
		body = nil
	}
	var payload bytes.Buffer
	switch r.Framing {
	case "length":
		fmt.Fprintf(&head, "Content-Length: %d\r\n", len(r.Body))
		payload.Write(body)
	case "chunked":
		head.WriteString("Transfer-Encoding: chunked\r\n")
		if len(r.Trailers) > 0 {
			head.WriteString("Trailer: " + r.Trailers[0].Name + "\r\n")
		}
		if m.Method != "HEAD" {
			off := 0
			for _, k := range r.Chunks {
				fmt.Fprintf(&payload, "%x\r\n%s\r\n", k, r.Body[off:off+k])
				off += k
			}
			payload.WriteString("0\r\n")
			for _, t := range r.Trailers {
				fmt.Fprintf(&payload, "%s: %s\r\n", t.Name, t.Value)
			}
			payload.WriteString("\r\n")
		}
	case "close":
		head.WriteString("Connection: close\r\n")
		payload.Write(body)
	case "none":
	}
	head.WriteString("\r\n")
	hb, pb := head.Bytes(), payload.Bytes()
	e.s.Note("dbg", fmt.Sprintf("backend responds to %s %s kind=%s: head=%q payload=%d bytes", m.Method, m.Target, akNames[ap.Kind], clip(hb, 300), len(pb)))
	switch ap.Kind {
	case akResetMidHeader:
		k := ap.Cut
		if k >= len(hb) {
			k = len(hb) - 1
		}
		c.Write(hb[:k])
		c.Reset()
		return false
	case akResetMidBody, akCloseMidBody:
		if len(pb) < 2 {
			break // nothing to cut: behaves as a full response
		}
		c.Write(hb)
		k := 1 + ap.Cut%(len(pb)-1)
		c.Write(pb[:k])
		rec.Partial = k
		if ap.Kind == akResetMidBody {
			c.Reset()
		}
		return false
	}
	c.Write(hb)
	if len(r.SlowMs) > 0 && len(pb) > 1 {
		half := len(pb) / 2
		simrt.Sleep(time.Duration(r.SlowMs[0]) * time.Millisecond)
		c.Write(pb[:half])
		simrt.Sleep(time.Duration(r.SlowMs[1]) * time.Millisecond)
		c.Write(pb[half:])
	} else if len(pb) > 0 {
		c.Write(pb)
	}
	rec.Full = true
	return r.Framing != "close"
}

// ---- scripted client ------------------------------------------------------------

// runClient sends its requests one at a time (pipeline=1) or in bursts and
// collects the response stream.
// retryConf records the retry settings in force for request p (the i-th of connection ci);
// in C08 runs the operator may change them between two requests of the connection.
func (e *eng) retryConf(ci int, p *reqPlan, i int) bool {
	cl := e.conf.Clusters[minI(ci, len(e.conf.Clusters)-1)]
	if e.focus == "C08" && e.faults && i > 0 && e.tp.Chance(1, 3, "retry_conf_reload") {
		cl.RetryMax, cl.CrossRetry, cl.RetryLevel = e.tp.Draw(3, "retry_max"), e.tp.Draw(3, "cross_retry"), e.tp.Draw(2, "retry_level")
		e.conf.Version++
		e.conf.writeData(e.n.root)
		e.s.Note("op", fmt.Sprintf("reload: RetryMax=%d CrossRetry=%d RetryLevel=%d", cl.RetryMax, cl.CrossRetry, cl.RetryLevel))
		if err := e.n.srv.ServerDataConfReload(url.Values{}); err != nil {
			e.s.FailK("C08.reload", "reload-of-generated-config-failed", "ServerDataConfReload: %v", err)
			return false
		}
		e.s.Fault("retry_conf_reload")
	}
	p.RetryMax, p.CrossRetry, p.RetryLevel = cl.RetryMax, cl.CrossRetry, cl.RetryLevel
	return true
}

func (e *eng) runClient(ci int, pipeline int) func() {
	return func() {
		cr := e.clients[ci]
		addr := fmt.Sprintf("192.0.2.%d:%d", 10+ci, 5000+ci)
		if ci < len(e.peerAddr) && e.peerAddr[ci] != "" {
			addr = e.peerAddr[ci]
		}
		conn := e.n.connect(addr)
		defer conn.Close()
		pause := 0
		if e.faults && e.tp.Chance(1, 3, "slow_client") {
			// a slow client: tiny receive window and pauses between reads, so the node's
			// writes toward it block while the backend keeps sending
			conn.SetWindow([]int{16, 200, 2000}[e.tp.Draw(3, "client_window")])
			pause = []int{1, 7, 60}[e.tp.Draw(3, "client_pause_ms")]
			e.s.Probe("slow_client")
		}
		plans := e.byConn[ci]
		tmp := make([]byte, 4096)
		abortAt := -1
		if e.abort && e.faults && e.tp.Chance(1, 3, "client_abort") {
			// the client goes away after this many received bytes, whatever is in flight
			abortAt = []int{1, 60, 300, 2000}[e.tp.Draw(4, "client_abort_class")] + e.tp.Draw(50, "client_abort_at")
		}
		for i := 0; i < len(plans); i += pipeline {
			batch := plans[i:minI(i+pipeline, len(plans))]
			for _, p := range batch {
				if !e.retryConf(ci, p, map[bool]int{true: i, false: 0}[pipeline == 1]) {
					return
				}
				if pipeline == 1 {
					e.cur[ci] = p
				}
				e.s.Note("op", fmt.Sprintf("client %d sends req %d %s %s body=%d chunked=%v", ci, p.ID, p.Method, p.Proto, len(p.Body), p.Chunked))
				if _, err := conn.Write(p.Raw); err != nil {
					cr.Closed = true
					return
				}
				cr.Sent = append(cr.Sent, p)
			}
			// read until every request of the batch has a final response, or the connection ends
			deadline := 120 * time.Second
			conn.SetReadDeadline(time.Now().Add(deadline))
			for {
				e.parseClient(cr, false)
				if cr.ParseErr != nil || len(finals(cr.Responses)) >= len(cr.Sent) {
					break
				}
				if pause > 0 {
					simrt.Sleep(time.Duration(pause) * time.Millisecond)
				}
				k, err := conn.Read(tmp)
				cr.Raw = append(cr.Raw, tmp[:k]...)
				if abortAt >= 0 && len(cr.Raw) >= abortAt && err == nil {
					e.s.Fault("client_abort")
					cr.Aborted, cr.Closed = true, true
					e.parseClient(cr, false)
					e.cur[ci] = nil
					return // deferred Close: FIN toward the node while it is still sending
				}
				if err != nil {
					cr.Closed = true
					if ne, ok := err.(interface{ Timeout() bool }); ok && ne.Timeout() {
						cr.TimedOut = true
						cr.Closed = false
					}
					if strings.Contains(err.Error(), "reset") {
						cr.Reset = true
					}
					e.parseClient(cr, true)
					e.cur[ci] = nil
					return
				}
			}
			e.cur[ci] = nil
			if cr.ParseErr != nil {
				return
			}
		}
		// after the last response: does the server keep the connection or close it?
		conn.SetReadDeadline(time.Now().Add(50 * time.Millisecond))
		k, err := conn.Read(tmp)
		cr.Raw = append(cr.Raw, tmp[:k]...)
		if err != nil {
			if ne, ok := err.(interface{ Timeout() bool }); !(ok && ne.Timeout()) {
				cr.Closed = true
			}
		}
		e.parseClient(cr, cr.Closed)
	}
}

func finals(ms []*href.Message) []*href.Message {
	var r []*href.Message
	for _, m := range ms {
		if m.Status >= 200 {
			r = append(r, m)
		}
	}
	return r
}

// parseClient re-parses the whole response stream received so far.
func (e *eng) parseClient(cr *clientRec, eof bool) {
	cr.Responses = nil
	cr.ParseErr = nil
	b := cr.Raw
	ri := 0
	for len(b) > 0 {
		method := "GET"
		if ri < len(cr.Sent) {
			method = cr.Sent[ri].Method
		}
		m, n, err := href.ParseResponse(b, method, eof)
		if err == href.ErrIncomplete {
			return
		}
		if err != nil {
			cr.ParseErr = err
			return
		}
		cr.Responses = append(cr.Responses, m)
		if m.Status >= 200 {
			ri++
		}
		b = b[n:]
	}
}

// ---- run ------------------------------------------------------------------------

func (e *eng) realBackends() {
	for _, cl := range e.conf.Clusters {
		bal, err := e.n.srv.balTable.Lookup(cl.Name)
		if err != nil {
			continue
		}
		subs := bal.VerifSubs()
		var names []string
		for sn := range subs {
			names = append(names, sn)
		}
		sort.Strings(names)
		for _, sn := range names {
			e.backends = append(e.backends, subs[sn].VerifBackends()...)
		}
	}
}

var errNegConn = fmt.Errorf("C07.nonnegative: a backend's active-connection count went negative")

func (e *eng) connInvariant() error {
	for _, b := range e.backends {
		if b.VerifConnNumRaw() < 0 {
			return errNegConn
		}
	}
	return nil
}
