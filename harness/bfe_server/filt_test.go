//go:build verif
// +build verif

package bfe_server

import (
	"fmt"
	"io/ioutil"
	"strings"

	"github.com/bfenetworks/bfe/bfe_basic"
	"github.com/bfenetworks/bfe/bfe_http"
	"github.com/bfenetworks/bfe/bfe_module"
)

// generated module filters (C48, also used by C28 / C07)

const (
	vGoOn = iota
	vClose
	vFinish
	vRedirect
	vResponse
)

var vNames = []string{"goon", "close", "finish", "redirect", "response"}

var reqPoints = []int{bfe_module.HandleBeforeLocation, bfe_module.HandleFoundProduct, bfe_module.HandleAfterLocation}

type filtExec struct {
	ReqID, Point, Idx, Verdict int
	Seq                        uint64
}

type filters struct {
	e *eng
	// verdict[point][filter index][request id]; missing = GoOn
	verdict map[int][]map[int]int
	execs   []filtExec
	// accept[filter index][connection index]; missing = GoOn
	accept      []map[int]int
	acceptExecs []filtExec // ReqID = connection index
}

// connOfPort: clients of the node engine connect from port 5000+connection index
func connOfPort(port int) int { return port - 5000 }

// firstAcceptVerdict: the first non-continue verdict of the accept chain for a connection.
func (f *filters) firstAcceptVerdict(conn int) (idx, v int, ok bool) {
	for i, m := range f.accept {
		if x := m[conn]; x != vGoOn {
			return i, x, true
		}
	}
	return 0, 0, false
}

func (f *filters) v(point, idx, id int) int {
	if ch, ok := f.verdict[point]; ok && idx < len(ch) {
		return ch[idx][id]
	}
	return vGoOn
}

func (f *filters) note(point, idx, id, v int) {
	seq := f.e.s.Note("filter", fmt.Sprintf("req %d %s#%d -> %s", id, bfe_module.CallbackPointName(point), idx, vNames[v]))
	f.execs = append(f.execs, filtExec{id, point, idx, v, seq})
}

func filterBody(id, point, idx int) string {
	return fmt.Sprintf("filter-response r%d p%d f%d", id, point, idx)
}

// install registers the generated chains through the real AddFilter.
func (f *filters) install(srv *BfeServer) {
	for idx := range f.accept {
		idx := idx
		srv.CallBacks.AddFilter(bfe_module.HandleAccept, func(session *bfe_basic.Session) int {
			conn := -1
			if a := session.RemoteAddr; a != nil {
				conn = connOfPort(a.Port)
			}
			v := f.accept[idx][conn]
			seq := f.e.s.Note("filter", fmt.Sprintf("conn %d HANDLE_ACCEPT#%d -> %s", conn, idx, vNames[v]))
			f.acceptExecs = append(f.acceptExecs, filtExec{conn, bfe_module.HandleAccept, idx, v, seq})
			if v == vClose {
				return bfe_module.BfeHandlerClose
			}
			return bfe_module.BfeHandlerGoOn
		})
	}
	for _, point := range []int{bfe_module.HandleBeforeLocation, bfe_module.HandleFoundProduct, bfe_module.HandleAfterLocation,
		bfe_module.HandleForward, bfe_module.HandleReadResponse, bfe_module.HandleRequestFinish} {
		chain := f.verdict[point]
		for idx := range chain {
			point, idx := point, idx
			switch point {
			case bfe_module.HandleForward:
				srv.CallBacks.AddFilter(point, func(req *bfe_basic.Request) int {
					id := reqIDOf(req.HttpRequest.URL.Path)
					v := f.v(point, idx, id)
					f.note(point, idx, id, v)
					if v == vFinish {
						return bfe_module.BfeHandlerFinish
					}
					return bfe_module.BfeHandlerGoOn
				})
			case bfe_module.HandleReadResponse, bfe_module.HandleRequestFinish:
				srv.CallBacks.AddFilter(point, func(req *bfe_basic.Request, res *bfe_http.Response) int {
					id := reqIDOf(req.HttpRequest.URL.Path)
					v := f.v(point, idx, id)
					f.note(point, idx, id, v)
					if v == vFinish {
						return bfe_module.BfeHandlerFinish
					}
					if v == vRedirect && point == bfe_module.HandleReadResponse {
						// the module hides the response behind a redirect
						req.Redirect.Url = fmt.Sprintf("/moved/r%d/p%d/f%d", id, point, idx)
						req.Redirect.Code = 302
						return bfe_module.BfeHandlerRedirect
					}
					return bfe_module.BfeHandlerGoOn
				})
			default:
				srv.CallBacks.AddFilter(point, func(req *bfe_basic.Request) (int, *bfe_http.Response) {
					id := reqIDOf(req.HttpRequest.URL.Path)
					v := f.v(point, idx, id)
					f.note(point, idx, id, v)
					switch v {
					case vClose:
						return bfe_module.BfeHandlerClose, nil
					case vFinish:
						return bfe_module.BfeHandlerFinish, nil
					case vRedirect:
						req.Redirect.Url = fmt.Sprintf("/moved/r%d/p%d/f%d", id, point, idx)
						req.Redirect.Code = 302
						return bfe_module.BfeHandlerRedirect, nil
					case vResponse:
						body := filterBody(id, point, idx)
						res := &bfe_http.Response{StatusCode: 403, Proto: "HTTP/1.1", ProtoMajor: 1, ProtoMinor: 1, Header: bfe_http.Header{},
							Body: ioutil.NopCloser(strings.NewReader(body)), ContentLength: int64(len(body)), Request: req.HttpRequest}
						res.Header.Set("X-Filter", fmt.Sprintf("r%d-p%d-f%d", id, point, idx))
						return bfe_module.BfeHandlerResponse, res
					}
					return bfe_module.BfeHandlerGoOn, nil
				})
			}
		}
	}
}

// gen draws filter chains and per-request verdicts.
func (e *eng) genFilters(ids []int, allowed map[int][]int, chance int) *filters {
	tp := e.tp
	f := &filters{e: e, verdict: map[int][]map[int]int{}}
	if len(allowed[bfe_module.HandleAccept]) > 0 {
		n := tp.Draw(4, "filters.accept_len")
		for i := 0; i < n; i++ {
			m := map[int]int{}
			for ci := range e.byConn {
				if tp.Chance(1, chance+2, "filters.accept_close") {
					m[ci] = vClose
				}
			}
			f.accept = append(f.accept, m)
		}
	}
	for _, point := range []int{bfe_module.HandleBeforeLocation, bfe_module.HandleFoundProduct, bfe_module.HandleAfterLocation,
		bfe_module.HandleForward, bfe_module.HandleReadResponse, bfe_module.HandleRequestFinish} {
		vs := allowed[point]
		if len(vs) == 0 {
			continue
		}
		n := tp.Draw(4, "filters.len")
		for i := 0; i < n; i++ {
			m := map[int]int{}
			for _, id := range ids {
				if tp.Chance(1, chance, "filters.nongoon") {
					m[id] = vs[tp.Draw(len(vs), "filters.verdict")]
				}
			}
			f.verdict[point] = append(f.verdict[point], m)
		}
	}
	return f
}

// firstVerdict: the first non-continue verdict the chains give request id in the
// request phase (point, idx, verdict), or ok=false.
func (f *filters) firstRequestVerdict(id int) (point, idx, v int, ok bool) {
	for _, p := range reqPoints {
		for i := range f.verdict[p] {
			if x := f.v(p, i, id); x != vGoOn {
				return p, i, x, true
			}
		}
	}
	return 0, 0, 0, false
}
