//go:build verif
// +build verif

package bfe_server

import (
	"encoding/json"
	"fmt"
	"io"
	"io/ioutil"
	"os"
	"path/filepath"
	"strings"
	"testing"
	"time"

	"verif/simrt"
	"verif/simrt/simnet"

	"github.com/bfenetworks/bfe/bfe_config/bfe_conf"
	"github.com/bfenetworks/bfe/bfe_modules"
)

func TestSim(t *testing.T) {
	simrt.Main(t, nodeProps())
}

// ---------------------------------------------------------------------------
// node: a whole BFE server without sockets, built from generated config files
// through the real loaders, with scripted clients and backends on simnet.
// ---------------------------------------------------------------------------

type nbackend struct {
	Name   string
	Addr   string // ip
	Port   int
	Weight int
}

func (b *nbackend) AddrInfo() string { return fmt.Sprintf("%s:%d", b.Addr, b.Port) }

type ncluster struct {
	Name          string
	Subs          map[string][]*nbackend // sub-cluster -> backends
	SubWeights    map[string]int
	RetryMax      int
	CrossRetry    int
	RetryLevel    int
	MaxIdle       int // MaxIdleConnsPerHost
	RespHdrTO     int // ms
	ConnTO        int // ms
	ReadCliTO     int // ms
	WriteCliTO    int
	ReadAgain     int
	ReqBuf        int
	ResFlush      int // ResFlushInterval ms (-1 off, 0 default)
	CancelOnClose bool
	FailNum       int // health check: failures that take a backend out (0 = practically never)
	SuccNum       int
	CheckInterval int // ms
}

func (cl *ncluster) checkConf() map[string]interface{} {
	if cl.FailNum <= 0 {
		return map[string]interface{}{"Schem": "tcp", "FailNum": 1000, "CheckInterval": 1000}
	}
	return map[string]interface{}{"Schem": "tcp", "FailNum": cl.FailNum, "SuccNum": cl.SuccNum, "CheckInterval": cl.CheckInterval, "CheckTimeout": 200}
}

type nconf struct {
	Version  int
	Clusters []*ncluster
	// routing: host -> cluster under product "p1"; default cluster = first
	Hosts map[string]string
	// module data
	TrustRanges   [][2]string
	Compress      string // GZIP | BROTLI
	CompressQ     int
	CompressFlush int
}

var nodeRoot string
var modulesSet bool

func confRoot() string {
	if nodeRoot == "" {
		d, err := ioutil.TempDir(os.Getenv("SIM_SCRATCH"), "node")
		if err != nil {
			panic(err)
		}
		repo := os.Getenv("VERIF_REPO")
		if repo == "" {
			repo = "/repo"
		}
		copyTree(filepath.Join(repo, "conf"), d)
		nodeRoot = d
	}
	return nodeRoot
}

func copyTree(src, dst string) {
	filepath.Walk(src, func(p string, info os.FileInfo, err error) error {
		if err != nil {
			return nil
		}
		rel, _ := filepath.Rel(src, p)
		if info.IsDir() {
			os.MkdirAll(filepath.Join(dst, rel), 0755)
			return nil
		}
		b, err := ioutil.ReadFile(p)
		if err == nil {
			ioutil.WriteFile(filepath.Join(dst, rel), b, 0644)
		}
		return nil
	})
}

func writeJSON(path string, v interface{}) {
	b, _ := json.MarshalIndent(v, "", " ")
	if err := ioutil.WriteFile(path, b, 0644); err != nil {
		panic(err)
	}
}

// writeData writes the server-data and cluster files of the configuration under root/<sub>/.
func (c *nconf) writeData(root string) {
	ver := fmt.Sprintf("v%d", c.Version)
	hosts := []string{}
	rules := []map[string]interface{}{}
	for h, cl := range c.Hosts {
		hosts = append(hosts, h)
		rules = append(rules, map[string]interface{}{"Cond": fmt.Sprintf("req_host_in(\"%s\")", h), "ClusterName": cl})
	}
	sortStrings(hosts)
	sortRules(rules)
	rules = append(rules, map[string]interface{}{"Cond": "default_t()", "ClusterName": c.Clusters[0].Name})
	writeJSON(filepath.Join(root, "server_data_conf/host_rule.data"), map[string]interface{}{
		"Version": ver, "DefaultProduct": "p1", "Hosts": map[string]interface{}{"t1": hosts}, "HostTags": map[string]interface{}{"p1": []string{"t1"}}})
	writeJSON(filepath.Join(root, "server_data_conf/vip_rule.data"), map[string]interface{}{"Version": ver, "Vips": map[string]interface{}{"p1": []string{"10.200.0.1"}}})
	writeJSON(filepath.Join(root, "server_data_conf/route_rule.data"), map[string]interface{}{"Version": ver, "ProductRule": map[string]interface{}{"p1": rules}})
	cc := map[string]interface{}{}
	gslb := map[string]interface{}{}
	table := map[string]interface{}{}
	for _, cl := range c.Clusters {
		cc[cl.Name] = map[string]interface{}{
			"BackendConf": map[string]interface{}{"TimeoutConnSrv": cl.ConnTO, "TimeoutResponseHeader": cl.RespHdrTO, "MaxIdleConnsPerHost": cl.MaxIdle, "RetryLevel": cl.RetryLevel},
			"CheckConf":   cl.checkConf(),
			"GslbBasic":   map[string]interface{}{"CrossRetry": cl.CrossRetry, "RetryMax": cl.RetryMax, "HashConf": map[string]interface{}{"HashStrategy": 1, "SessionSticky": false}},
			"ClusterBasic": map[string]interface{}{"TimeoutReadClient": cl.ReadCliTO, "TimeoutWriteClient": cl.WriteCliTO, "TimeoutReadClientAgain": cl.ReadAgain,
				"ReqWriteBufferSize": cl.ReqBuf, "ReqFlushInterval": 0, "ResFlushInterval": cl.ResFlush, "CancelOnClientClose": cl.CancelOnClose},
		}
		gslb[cl.Name] = cl.SubWeights
		subs := map[string]interface{}{}
		for sn, bs := range cl.Subs {
			list := []map[string]interface{}{}
			for _, b := range bs {
				list = append(list, map[string]interface{}{"Name": b.Name, "Addr": b.Addr, "Port": b.Port, "Weight": b.Weight})
			}
			subs[sn] = list
		}
		table[cl.Name] = subs
	}
	writeJSON(filepath.Join(root, "server_data_conf/cluster_conf.data"), map[string]interface{}{"Version": ver, "Config": cc})
	writeJSON(filepath.Join(root, "cluster_conf/gslb.data"), map[string]interface{}{"Clusters": gslb, "Hostname": "sim", "Ts": ver})
	writeJSON(filepath.Join(root, "cluster_conf/cluster_table.data"), map[string]interface{}{"Version": ver, "Config": table})
}

func sortStrings(a []string) {
	for i := 1; i < len(a); i++ {
		for j := i; j > 0 && a[j] < a[j-1]; j-- {
			a[j], a[j-1] = a[j-1], a[j]
		}
	}
}

func sortRules(a []map[string]interface{}) {
	for i := 1; i < len(a); i++ {
		for j := i; j > 0 && a[j]["Cond"].(string) < a[j-1]["Cond"].(string); j-- {
			a[j], a[j-1] = a[j-1], a[j]
		}
	}
}

// writeModuleConf writes the data files of the modules used by the run.
func writeModuleConf(root string, c *nconf) {
	if c.TrustRanges != nil {
		var list []map[string]string
		for _, r := range c.TrustRanges {
			list = append(list, map[string]string{"Begin": r[0], "End": r[1]})
		}
		writeJSON(filepath.Join(root, "mod_trust_clientip/trust_client_ip.data"), map[string]interface{}{"Version": fmt.Sprintf("v%d", c.Version), "Config": map[string]interface{}{"inner": list}})
	}
	if c.Compress != "" {
		writeJSON(filepath.Join(root, "mod_compress/compress_rule.data"), map[string]interface{}{"Version": fmt.Sprintf("v%d", c.Version), "Config": map[string]interface{}{
			"p1": []map[string]interface{}{{"Cond": "default_t()", "Action": map[string]interface{}{"Cmd": c.Compress, "Quality": c.CompressQ, "FlushSize": c.CompressFlush}}}}})
	}
}

type node struct {
	s    *simrt.Sim
	net  *simnet.Net
	srv  *BfeServer
	conf *nconf
	root string
}

// startNodeFiles is startNode for harnesses that wrote the data files themselves.
func startNodeFiles(s *simrt.Sim, net *simnet.Net, modules []string) (*node, error) {
	return startNodeConf(s, net, nil, modules)
}

func startNode(s *simrt.Sim, net *simnet.Net, c *nconf, modules []string) (*node, error) {
	return startNodeConf(s, net, c, modules)
}

// startNodeConf builds a BfeServer the way StartUp does (minus listeners, signal
// table and the monitor's web server) from generated files.
func startNodeConf(s *simrt.Sim, net *simnet.Net, c *nconf, modules []string) (*node, error) {
	root := confRoot()
	// process-wide caches of the package are part of the run's state: start every run
	// from the same point (a run must not depend on earlier runs of the process)
	resetProcessCaches()
	if c != nil {
		c.writeData(root)
		writeModuleConf(root, c)
	}
	cfg, err := bfe_conf.BfeConfigLoad(filepath.Join(root, "bfe.conf"), root)
	if err != nil {
		return nil, fmt.Errorf("BfeConfigLoad: %v", err)
	}
	cfg.Server.Modules = modules
	if !modulesSet {
		bfe_modules.SetModules()
		modulesSet = true
	}
	srv := NewBfeServer(cfg, root, "sim")
	if err := srv.InitHttp(); err != nil {
		return nil, err
	}
	if err := srv.InitDataLoad(); err != nil {
		return nil, fmt.Errorf("InitDataLoad: %v", err)
	}
	if err := srv.InitWebMonitor(cfg.Server.MonitorPort); err != nil {
		return nil, fmt.Errorf("InitWebMonitor: %v", err)
	}
	if err := srv.RegisterModules(modules); err != nil {
		return nil, fmt.Errorf("RegisterModules: %v", err)
	}
	if err := srv.InitModules(); err != nil {
		return nil, fmt.Errorf("InitModules: %v", err)
	}
	return &node{s: s, net: net, srv: srv, conf: c, root: root}, nil
}

// connect opens a client connection to the node: the server end is served by
// the real conn.serve() as a scheduler task.
func (n *node) connect(clientAddr string) *simnet.Conn {
	cli, srvEnd := n.net.Pair(clientAddr, "10.200.0.1:8080")
	c, err := newConn(srvEnd, n.srv)
	if err != nil {
		panic(err)
	}
	simrt.GoNamed("conn.serve", clientAddr, c.serve)
	return cli
}

// ---------------------------------------------------------------------------
// scripted backend
// ---------------------------------------------------------------------------

// readHTTPRequest reads one request (head + body by Content-Length / chunked) from r, raw.
func readUntil(c io.Reader, buf *[]byte, pred func([]byte) int) (int, error) {
	tmp := make([]byte, 4096)
	for {
		if n := pred(*buf); n >= 0 {
			return n, nil
		}
		k, err := c.Read(tmp)
		*buf = append(*buf, tmp[:k]...)
		if err != nil {
			if n := pred(*buf); n >= 0 {
				return n, nil
			}
			return -1, err
		}
	}
}

func headEnd(b []byte) int {
	i := strings.Index(string(b), "\r\n\r\n")
	if i < 0 {
		return -1
	}
	return i + 4
}

var _ = time.Second
