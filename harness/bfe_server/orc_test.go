//go:build verif
// +build verif

package bfe_server

import (
	"bytes"
	"compress/gzip"
	"fmt"
	"io/ioutil"
	"net"
	"net/url"
	"strconv"
	"strings"
	"time"

	"github.com/andybalholm/brotli"

	"verif/simrt"
	"verif/simrt/href"
	"verif/simrt/simnet"

	"github.com/baidu/go-lib/web-monitor/web_monitor"

	"github.com/bfenetworks/bfe/bfe_basic"
	"github.com/bfenetworks/bfe/bfe_http"
	"github.com/bfenetworks/bfe/bfe_module"
)

func nodeProps() map[string]simrt.Prop {
	opt := simrt.Options{MaxSteps: 150000, IdleLimit: 10 * time.Minute}
	return map[string]simrt.Prop{
		"SMOKE": {Run: runSmoke, Opt: opt},
		"C07":   {Run: runNode("C07"), Opt: opt},
		"C08":   {Run: runNode("C08"), Opt: opt},
		"C08h2": {Run: runC08h2, Opt: opt},
		"C26":   {Run: runNode("C26"), Opt: opt},
		"C27":   {Run: runNode("C27"), Opt: opt},
		"C28":   {Run: runNode("C28"), Opt: opt},
		"C48":   {Run: runNode("C48"), Opt: opt},
		"C25":   {Run: runNode("C25"), Opt: opt},
		"C29":   {Run: runNode("C29"), Opt: opt},
		"C54":   {Run: runNode("C54"), Opt: opt},
		"C15":   {Run: runC15, Opt: opt},
		"C47":   {Run: runC47, Opt: opt},
	}
}

func runNode(focus string) func(s *simrt.Sim) {
	return func(s *simrt.Sim) {
		tp := s.Tape
		e := &eng{s: s, tp: tp, focus: focus, plans: map[int]*reqPlan{}, nAttempt: map[int]int{}, pending: map[string]*attemptRec{}}
		e.faults = simrt.Mode() != "nofault"
		s.SetSticky([]int{3, 10, 30}[tp.Draw(3, "sched.strategy")])
		if e.faults {
			s.SetMapOrder(tp.Draw(3, "maporder"))
			s.SetSelectOrder(tp.Draw(3, "selectorder"))
		}
		e.net = simnet.New(s)
		if e.faults {
			e.net.Seg = []int{0, 2, 6}[tp.Draw(3, "net.seg")]
		}
		nconn := tp.Range(1, 3, "n_conns")
		if focus == "C08" {
			nconn = 1
		}
		if focus == "C54" && e.faults {
			nconn = 3 // a client that goes away and others that carry on concurrently
		}
		e.conf = e.genConf(nconn)
		var modules []string
		trustReload := false
		switch focus {
		case "C07":
			e.abort = true
			if e.faults {
				// health checking that really takes backends out and brings them back
				for _, cl := range e.conf.Clusters {
					if tp.Chance(1, 2, "health_check_live") {
						cl.FailNum = tp.Range(1, 3, "fail_num")
						cl.SuccNum = tp.Range(1, 2, "succ_num")
						cl.CheckInterval = []int{20, 100, 1000}[tp.Draw(3, "check_interval")]
					}
				}
			}
		case "C25":
			e.hostile = true
		case "C29":
			e.spoof = true
			modules = []string{"mod_trust_clientip", "mod_header"}
			e.conf.TrustRanges = [][2]string{{"10.77.0.0", "10.77.255.255"}, {"172.20.1.1", "172.20.1.1"}}
			if trustReload = e.faults && tp.Chance(1, 2, "trust_reload"); trustReload {
				// the node starts with another table (it trusts 10.78/16 and 172.20.1.2 instead)
				e.conf.TrustRanges = [][2]string{{"10.78.0.0", "10.78.255.255"}, {"172.20.1.2", "172.20.1.2"}}
			}
			e.seenAddr = map[int]string{}
			for ci := 0; ci < nconn; ci++ {
				a := []string{"198.51.100.7", "10.77.3.4", "172.20.1.1", "172.20.1.2", "10.78.0.1"}[tp.Draw(5, "peer_ip")]
				e.peerAddr = append(e.peerAddr, fmt.Sprintf("%s:%d", a, 30000+tp.Draw(20000, "peer_port")))
			}
		case "C54":
			e.accEnc = true
			e.abort = true
			for _, cl := range e.conf.Clusters {
				cl.CancelOnClose = cl.CancelOnClose || tp.Chance(1, 2, "c54.cancel_on_close")
			}
			modules = []string{"mod_compress"}
			e.conf.Compress = []string{"GZIP", "BROTLI"}[tp.Draw(2, "compress_cmd")]
			e.conf.CompressQ = 1 + tp.Draw(9, "compress_q")
			e.conf.CompressFlush = []int{64, 512, 4096}[tp.Draw(3, "compress_flush")]
		}
		// forward-phase filter verdicts (C07): per request id, drawn up front
		fwdFinish := map[int]int{} // HandleForward filter answers BfeHandlerFinish from this attempt on (1 = first)
		fwdSeen := map[int]int{}
		finFinish := map[int]bool{} // HandleRequestFinish filter answers BfeHandlerFinish
		rspFinish := map[int]bool{} // HandleReadResponse filter answers BfeHandlerFinish
		id := 0
		pipeline := 1
		if focus == "C28" && tp.Chance(1, 2, "pipeline") {
			pipeline = tp.Range(2, 4, "pipeline_n")
		}
		for ci := 0; ci < nconn; ci++ {
			nreq := tp.Range(1, 5, "n_requests")
			var list []*reqPlan
			for k := 0; k < nreq; k++ {
				p := e.genReq(id, ci)
				if pipeline > 1 {
					// pipelined requests cannot be attributed to attempts one by one: no backend faults
					for i := range p.Attempts {
						p.Attempts[i].Kind = akRespond
					}
				}
				if focus == "C07" && e.faults && tp.Chance(1, 6, "fwd_finish") {
					fwdFinish[id] = 1 + tp.Draw(3, "fwd_finish_attempt")
				}
				if focus == "C07" && e.faults && tp.Chance(1, 6, "fin_finish") {
					finFinish[id] = true
				}
				if focus == "C07" && e.faults && tp.Chance(1, 8, "rsp_finish") {
					rspFinish[id] = true
				}
				bad := focus == "C28" && e.faults && pipeline > 1 && k > 0 && tp.Chance(1, 4, "bad_request")
				if bad {
					// a request BFE refuses by itself (it answers 400 and closes), pipelined behind good ones
					p.Bad = true
					p.Raw = []byte(fmt.Sprintf("GET %s HTTP/1.1\r\nHost: %s\r\n%s\r\n\r\n", p.Path, p.Host,
						[]string{"this line has no colon", " leading-space: continuation of nothing", "Bad Name: x"}[tp.Draw(3, "bad_request.kind")]))
					p.Method, p.Body, p.Chunked = "GET", nil, false
					s.Probe("c28_bad_request_pipelined")
				}
				e.plans[id] = p
				list = append(list, p)
				id++
				if bad {
					break // nothing can follow on this connection
				}
			}
			e.byConn = append(e.byConn, list)
			e.clients = append(e.clients, &clientRec{Conn: ci})
		}
		var ids []int
		for i := 0; i < id; i++ {
			ids = append(ids, i)
		}
		switch focus {
		case "C48":
			e.filt = e.genFilters(ids, map[int][]int{
				bfe_module.HandleAccept:         {vClose},
				bfe_module.HandleBeforeLocation: {vClose, vFinish, vRedirect, vResponse},
				bfe_module.HandleFoundProduct:   {vClose, vFinish, vRedirect, vResponse},
				bfe_module.HandleAfterLocation:  {vClose, vFinish, vRedirect, vResponse},
				bfe_module.HandleForward:        {vFinish},
				bfe_module.HandleReadResponse:   {vFinish, vRedirect},
				bfe_module.HandleRequestFinish:  {vFinish},
			}, 5)
		case "C28":
			if e.faults {
				// module-style handlers that answer without reading the request body
				e.filt = e.genFilters(ids, map[int][]int{
					bfe_module.HandleBeforeLocation: {vRedirect, vResponse},
					bfe_module.HandleAfterLocation:  {vResponse},
				}, 4)
			}
		}
		e.cur = make([]*reqPlan, nconn)
		e.net.Policy = e.policy
		n, err := startNode(s, e.net, e.conf, modules)
		if err != nil {
			s.FailK(focus+".start", "node-start-failed", "node did not start on a generated configuration: %v", err)
			return
		}
		e.n = n
		if trustReload {
			// the operator replaces the trusted-source table before the clients arrive; the data
			// file keeps its version string (only the ranges change)
			e.conf.TrustRanges = [][2]string{{"10.77.0.0", "10.77.255.255"}, {"172.20.1.1", "172.20.1.1"}}
			writeModuleConf(n.root, e.conf)
			h, err := n.srv.Monitor.WebHandlers.GetHandler(web_monitor.WebHandleReload, "mod_trust_clientip")
			if err == nil {
				err = h.(func(url.Values) error)(url.Values{})
			}
			if err != nil {
				s.FailK("C29.reload", "trust-table-reload-failed", "reload of the trusted-source table: %v", err)
				return
			}
			s.Fault("trust_table_reload")
		}
		e.realBackends()
		s.Invariant(e.connInvariant)
		if len(fwdFinish) > 0 {
			n.srv.CallBacks.AddFilter(bfe_module.HandleForward, func(req *bfe_basic.Request) int {
				rid := reqIDOf(req.HttpRequest.URL.Path)
				fwdSeen[rid]++
				if at := fwdFinish[rid]; at > 0 && fwdSeen[rid] >= at {
					s.Probe("forward_filter_finish")
					if fwdSeen[rid] > 1 {
						s.Probe("forward_filter_finish_on_retry")
					}
					return bfe_module.BfeHandlerFinish
				}
				return bfe_module.BfeHandlerGoOn
			})
		}
		if e.filt != nil {
			e.filt.install(n.srv)
		}
		if e.seenAddr != nil {
			n.srv.CallBacks.AddFilter(bfe_module.HandleAfterLocation, func(req *bfe_basic.Request) (int, *bfe_http.Response) {
				a := "<nil>"
				if req.ClientAddr != nil {
					a = req.ClientAddr.String()
				}
				e.seenAddr[reqIDOf(req.HttpRequest.URL.Path)] = a
				return bfe_module.BfeHandlerGoOn, nil
			})
		}
		if len(finFinish) > 0 {
			n.srv.CallBacks.AddFilter(bfe_module.HandleRequestFinish, func(req *bfe_basic.Request, res *bfe_http.Response) int {
				if finFinish[reqIDOf(req.HttpRequest.URL.Path)] {
					s.Probe("finish_filter_finish")
					return bfe_module.BfeHandlerFinish
				}
				return bfe_module.BfeHandlerGoOn
			})
		}
		if len(rspFinish) > 0 {
			n.srv.CallBacks.AddFilter(bfe_module.HandleReadResponse, func(req *bfe_basic.Request, res *bfe_http.Response) int {
				if rspFinish[reqIDOf(req.HttpRequest.URL.Path)] {
					s.Probe("response_filter_finish")
					return bfe_module.BfeHandlerFinish
				}
				return bfe_module.BfeHandlerGoOn
			})
		}
		for _, cl := range e.conf.Clusters {
			for _, sn := range sortedSubNames(cl) { // never Go's map order: task names must be a function of the seed
				for _, b := range cl.Subs[sn] {
					l := e.net.Listen(b.AddrInfo())
					e.lsn = append(e.lsn, l)
					simrt.GoNamed("backend.accept", b.AddrInfo(), e.acceptLoop(l, b.AddrInfo()))
				}
			}
		}
		var clients []*simrt.Task
		for ci := 0; ci < nconn; ci++ {
			clients = append(clients, simrt.GoNamed("client", ci, e.runClient(ci, pipeline)))
		}
		simrt.Join(clients...)
		// let the node finish its side (conn.serve exits, backend conns close)
		simrt.Sleep(2 * time.Second)
		for _, l := range e.lsn {
			l.Close()
		}
		simrt.Sleep(100 * time.Millisecond)
		e.sample()
		if s.Failed() {
			return
		}
		e.checkPanics()
		switch focus {
		case "C27":
			e.checkC27()
		case "C28":
			e.checkC28()
		case "C26":
			e.checkC26()
		case "C07":
			e.checkC07()
		case "C08":
			e.checkC08()
		case "C48":
			e.checkC48()
		case "C25":
			e.checkC25()
		case "C29":
			e.checkC29()
		case "C54":
			e.checkC54()
		}
	}
}

func sortedSubNames(cl *ncluster) []string {
	var r []string
	for sn := range cl.Subs {
		r = append(r, sn)
	}
	sortStrings(r)
	return r
}

func (e *eng) sample() {
	var reqs []string
	for ci, list := range e.byConn {
		for _, p := range list {
			k := []string{}
			for _, a := range p.Attempts {
				k = append(k, akNames[a.Kind])
			}
			reqs = append(reqs, fmt.Sprintf("conn%d r%d %s %s body=%d chunked=%v attempts=%v", ci, p.ID, p.Method, p.Proto, len(p.Body), p.Chunked, k[:minI(len(k), 3)]))
		}
	}
	if len(reqs) > 8 {
		reqs = reqs[:8]
	}
	e.s.Sample = map[string]interface{}{"clusters": len(e.conf.Clusters), "requests": reqs, "attempts_seen": len(e.attempts)}
	for _, cr := range e.clients {
		e.s.Note("dbg", fmt.Sprintf("client %d received (closed=%v timeout=%v): %q", cr.Conn, cr.Closed, cr.TimedOut, clipTail(cr.Raw, 700)))
	}
	for _, a := range e.attempts {
		e.s.Note("dbg", fmt.Sprintf("backend %s attempt r%d#%d kind=%s got: %q err=%v", a.Backend, a.ReqID, a.Idx, akNames[a.Kind], clip(a.RawReq, 300), a.ParseErr))
	}
}

// panics inside conn.serve are recovered by BFE and only counted
func (e *eng) checkPanics() {
	ps := e.n.srv.serverStatus.ProxyState
	if n := ps.PanicClientConnServe.Get() + ps.PanicBackendRead.Get() + ps.PanicBackendWrite.Get(); n > 0 {
		e.s.FailK(e.focus+".panic", "recovered-panic-in-node", "%d panic(s) were recovered inside the node (conn.serve / transport loops)", n)
	}
}

func (e *eng) attemptsOf(id int) []*attemptRec {
	var r []*attemptRec
	for _, a := range e.attempts {
		if a.ReqID == id {
			r = append(r, a)
		}
	}
	return r
}

// lastServed: the attempt whose response the client should have got
func (e *eng) servedAttempt(p *reqPlan) (*attemptRec, *attemptPlan) {
	as := e.attemptsOf(p.ID)
	for i := len(as) - 1; i >= 0; i-- {
		a := as[i]
		if a.Req != nil && a.Idx < len(p.Attempts) {
			ap := p.Attempts[a.Idx]
			ap.Kind = a.Kind
			return a, &ap
		}
	}
	return nil, nil
}

var bfeAdds = map[string]bool{"date": true, "content-type": true, "connection": true, "content-length": true, "transfer-encoding": true, "server": true}

// C27: every response BFE writes parses as exactly one response with the
// backend's status, end-to-end headers and body, with delimitable framing.
func (e *eng) checkC27() {
	s := e.s
	for _, cr := range e.clients {
		if cr.ParseErr != nil {
			s.FailK("C27.parse", "client-stream-unparseable", "conn %d: response stream does not parse: %v; raw=%q", cr.Conn, cr.ParseErr, clip(cr.Raw, 400))
			return
		}
		fin := finals(cr.Responses)
		for i, p := range cr.Sent {
			as := e.attemptsOf(p.ID)
			if i >= len(fin) {
				break // connection ended before this response; covered by C28 / legit after a failure
			}
			m := fin[i]
			s.Checked(1)
			last, ap := e.servedAttempt(p)
			full := last != nil && len(as) > 0 && as[len(as)-1] == last && last.Full
			if !full {
				// no complete backend response: BFE answers by itself (5xx) or truncates visibly
				if last != nil && (ap.Kind == akResetMidBody || ap.Kind == akCloseMidBody) && as[len(as)-1] == last {
					// truncation must be visible: the client must not get a cleanly delimited shorter body
					// on a connection that then stays open
					wantLen := len(ap.Resp.Body)
					fromBackend := len(m.Get("X-Backend-Id")) > 0 && m.Get("X-Backend-Id")[0] == ap.Resp.Fields[0].Value // not BFE's own error page
					// (a chunked body that ends with its terminator, or a body as long as its
					// Content-Length says, is complete for the client whether or not the
					// connection closes afterwards)
					if p.Method != "HEAD" && fromBackend && m.Status == ap.Resp.Status && len(m.Body) < wantLen && (m.Framing == "chunked" || m.Framing == "length" || !cr.Closed && i == len(cr.Sent)-1) {
						s.FailK("C27.truncation", "truncated-body-delivered-as-complete", "req %d: backend failed mid-body (%d of %d bytes) but the client got a complete-looking %d-byte response on a connection that stays open",
							p.ID, len(m.Body), wantLen, len(m.Body))
						return
					}
					s.Probe("c27_truncation_checked")
				}
				continue
			}
			r := ap.Resp
			if m.Status != r.Status {
				s.FailK("C27.status", "status-differs", "req %d: backend status %d, client got %d", p.ID, r.Status, m.Status)
				return
			}
			// end-to-end headers preserved: same values in the same per-name order
			for _, name := range fieldNames(r.Fields) {
				ln := strings.ToLower(name)
				if ln == "connection" || ln == "keep-alive" || ln == "transfer-encoding" || ln == "content-length" || ln == "trailer" {
					continue
				}
				want := valuesOf(r.Fields, name)
				got := m.Get(name)
				if r.Status == 304 && ln == "content-type" {
					// representation metadata on a 304 (no body follows): dropping it is what RFC 7232 4.1
					// recommends; not read as "altering an end-to-end header"
					continue
				}
				if strings.Join(want, "\x00") != strings.Join(got, "\x00") {
					s.FailK("C27.headers", "end-to-end-header-lost-or-altered", "req %d: backend sent %s: %q, client got %q", p.ID, name, want, got)
					return
				}
			}
			wantBody := r.Body
			if p.Method == "HEAD" || r.Status == 204 || r.Status == 304 {
				wantBody = nil
			}
			if m.Framing == "close" && cr.Closed && s.Faults.Get("write_deadline") > 0 && bytes.HasPrefix(wantBody, m.Body) {
				// BFE gave a slow client up when its write deadline ran out; a body that is
				// delimited by the close of the connection (HTTP/1.0 client) offers no other
				// way to say so than that close
				s.Probe("c27_close_delimited_cut_by_write_deadline")
				continue
			}
			if !bytes.Equal(m.Body, wantBody) {
				s.FailK("C27.body", "body-differs", "req %d (%s, backend framing %s): backend body %d bytes, client got %d bytes (%q vs %q)", p.ID, p.Method, r.Framing, len(wantBody), len(m.Body), clip(wantBody, 60), clip(m.Body, 60))
				return
			}
			if m.Framing == "close" && !cr.Closed && i == len(cr.Sent)-1 {
				s.FailK("C27.framing", "undelimited-response-on-open-connection", "req %d: response has no length and is not chunked, yet the connection stays open", p.ID)
				return
			}
			s.Probe("c27_full_response_checked")
		}
	}
}

func bodyWire(r respPlan, method string) []byte {
	if method == "HEAD" {
		return nil
	}
	return r.Body
}

func fieldNames(fs []href.Field) []string {
	var r []string
	seen := map[string]bool{}
	for _, f := range fs {
		if !seen[strings.ToLower(f.Name)] {
			seen[strings.ToLower(f.Name)] = true
			r = append(r, f.Name)
		}
	}
	return r
}

func valuesOf(fs []href.Field, name string) []string {
	var r []string
	for _, f := range fs {
		if strings.EqualFold(f.Name, name) {
			r = append(r, f.Value)
		}
	}
	return r
}

func clipTail(b []byte, n int) []byte {
	if len(b) > n {
		return b[len(b)-n:]
	}
	return b
}

func clip(b []byte, n int) []byte {
	if len(b) > n {
		return b[:n]
	}
	return b
}

// C28: responses in request order, at most one final response each, the
// backend never sees a request the client did not send, and the connection is
// closed when the next request cannot be delimited.
func (e *eng) checkC28() {
	s := e.s
	sent := map[int]bool{}
	for _, cr := range e.clients {
		for _, p := range cr.Sent {
			sent[p.ID] = true
		}
	}
	for _, a := range e.attempts {
		s.Checked(1)
		if a.ParseErr != nil && a.ParseErr != href.ErrIncomplete && len(a.RawReq) > 0 && !strings.Contains(a.ParseErr.Error(), "connection ended") {
			s.FailK("C28.backend_stream", "backend-received-unparseable-request", "backend %s received bytes that are not a request: %v; raw=%q", a.Backend, a.ParseErr, clip(a.RawReq, 300))
			return
		}
		if a.Req != nil && !sent[reqIDOf(a.Req.Target)] {
			s.FailK("C28.desync", "backend-saw-request-client-never-sent", "backend %s received request %q which no client sent (body bytes re-read as a request?)", a.Backend, a.Req.Method+" "+a.Req.Target)
			return
		}
	}
	for _, cr := range e.clients {
		if cr.ParseErr != nil {
			s.FailK("C28.parse", "client-stream-unparseable", "conn %d: response stream does not parse: %v; raw=%q", cr.Conn, cr.ParseErr, clip(cr.Raw, 400))
			return
		}
		fin := finals(cr.Responses)
		s.Checked(1)
		if len(fin) > len(cr.Sent) {
			s.FailK("C28.count", "more-final-responses-than-requests", "conn %d: %d requests sent, %d final responses received", cr.Conn, len(cr.Sent), len(fin))
			return
		}
		// order: a response that carries a backend id belongs to the request at the same position
		for i, m := range fin {
			p := cr.Sent[i]
			if v := m.Get("X-Backend-Id"); len(v) > 0 {
				ok := false
				for _, ap := range p.Attempts {
					if len(ap.Resp.Fields) > 0 && ap.Resp.Fields[0].Value == v[0] {
						ok = true
					}
				}
				if !ok {
					s.FailK("C28.order", "response-belongs-to-other-request", "conn %d: response #%d carries backend id %s which was planned for another request than r%d", cr.Conn, i, v[0], p.ID)
					return
				}
			}
		}
		// BFE's own 400 means it could not parse what it took for a request: every request
		// sent here but the marked ones is well-formed, so it was reading something else
		// (a request that a read deadline cut in the middle is not well-formed as the server saw it)
		for i, m := range fin {
			if m.Status == 400 && len(m.Get("X-Backend-Id")) == 0 && !cr.Sent[i].Bad && s.Faults.Get("read_deadline") == 0 {
				s.FailK("C28.desync", "well-formed-request-answered-400", "conn %d: response #%d is BFE's own 400 although request r%d (%s, body %d, chunked %v) is well-formed: bytes of an earlier message were taken for a request?", cr.Conn, i, cr.Sent[i].ID, cr.Sent[i].Method, len(cr.Sent[i].Body), cr.Sent[i].Chunked)
				return
			}
		}
		if len(fin) < len(cr.Sent) && !cr.Closed && !cr.TimedOut {
			s.FailK("C28.count", "missing-response-on-open-connection", "conn %d: %d requests sent, %d responses, connection still open", cr.Conn, len(cr.Sent), len(fin))
			return
		}
		if len(fin) == len(cr.Sent) {
			s.Probe("c28_all_answered")
		}
	}
}

// C26: hop-by-hop fields never reach the backend.
func (e *eng) checkC26() {
	s := e.s
	for _, a := range e.attempts {
		if a.Req == nil {
			continue
		}
		p := e.plans[reqIDOf(a.Req.Target)]
		s.Checked(1)
		for _, f := range a.Req.Fields {
			ln := strings.ToLower(f.Name)
			bad := false
			switch ln {
			case "connection", "keep-alive", "proxy-authenticate", "proxy-authorization", "trailer", "upgrade":
				bad = true
			case "te":
				bad = strings.ToLower(strings.TrimSpace(f.Value)) != "trailers"
			case "transfer-encoding":
				// framing BFE itself adds for a forwarded body is allowed: chunked only, and only if the request has a body
				bad = strings.ToLower(f.Value) != "chunked" || p == nil || (p.Method != "POST" && p.Method != "PUT")
			}
			if bad {
				s.FailK("C26.fixed", "hop-by-hop-"+ln+"-forwarded", "backend received hop-by-hop field %s: %q (request r%d)", f.Name, f.Value, reqIDOf(a.Req.Target))
				return
			}
		}
		if p != nil {
			for _, cf := range p.Fields {
				if !strings.EqualFold(cf.Name, "Connection") {
					continue
				}
				for _, tok := range strings.Split(cf.Value, ",") {
					tok = strings.TrimSpace(tok)
					if tok == "" || strings.EqualFold(tok, "close") || strings.EqualFold(tok, "keep-alive") {
						continue
					}
					if a.Req.Has(tok) {
						s.FailK("C26.listed", "connection-listed-field-forwarded", "client sent Connection: %s, backend still received %s: %q", cf.Value, tok, a.Req.Get(tok))
						return
					}
					s.Probe("c26_connection_listed_checked")
				}
			}
		}
	}
}

// C07: active-connection counts never negative (invariant, every step) and
// back to zero when all requests have finished.
func (e *eng) checkC07() {
	s := e.s
	for _, b := range e.backends {
		s.Checked(1)
		if n := b.VerifConnNumRaw(); n != 0 {
			key := "count-not-zero-at-quiescence"
			if n < 0 {
				key = "count-negative-at-quiescence"
			}
			s.FailK("C07.zero", key, "all requests have finished but backend %s has active-connection count %d", b.AddrInfo, n)
			return
		}
	}
}

// C08: retries are safe and bounded.
func (e *eng) checkC08() {
	s := e.s
	for _, list := range e.byConn {
		for _, p := range list {
			as := e.attemptsOf(p.ID)
			if len(as) == 0 {
				continue
			}
			cl := p // the settings in force when the request was sent
			s.Checked(1)
			if len(as) > 1+cl.RetryMax+cl.CrossRetry {
				s.FailK("C08.bound", "too-many-attempts", "request r%d was attempted %d times; RetryMax=%d CrossRetry=%d", p.ID, len(as), cl.RetryMax, cl.CrossRetry)
				return
			}
			for k := 0; k+1 < len(as); k++ {
				a := as[k]
				connectPhase := a.Kind == akDialRefuse || a.Kind == akDialTimeout
				bodyless := p.Method == "GET" && len(p.Body) == 0 && !p.Chunked
				allowed := connectPhase || (bodyless && cl.RetryLevel == 1)
				if !allowed {
					s.FailK("C08.safe", "unsafe-retry", "request r%d (%s, body %d bytes, RetryLevel %d) was sent again after attempt %d failed with %s", p.ID, p.Method, len(p.Body), cl.RetryLevel, k, akNames[a.Kind])
					return
				}
				if a.BodyRead > 0 {
					s.FailK("C08.body", "retry-after-body-consumed", "request r%d was sent again although %d body bytes had already reached a backend", p.ID, a.BodyRead)
					return
				}
				s.Probe("c08_retry_checked")
			}
			// cross-sub-cluster attempts: beyond RetryMax in-cluster tries the attempt goes elsewhere
			if len(as) > 1 {
				first := as[0].Sub
				for k, a := range as {
					if k > cl.RetryMax && a.Sub == first {
						s.FailK("C08.cross", "cross-retry-in-designated-subcluster", "request r%d: attempt %d (beyond RetryMax=%d) went to the designated sub-cluster %s again", p.ID, k, cl.RetryMax, first)
						return
					}
				}
			}
		}
	}
}

var _ = simnet.Accept

// C48: filters run in registration order up to the first non-continue verdict;
// close sends nothing, redirect/response send exactly that response without a
// backend contact, finish closes the connection after replying.
func (e *eng) checkC48() {
	s := e.s
	f := e.filt
	// 1. order and stop, per request and point
	type key struct{ id, point int }
	seen := map[key][]filtExec{}
	var keys []key
	for _, x := range f.execs {
		k := key{x.ReqID, x.Point}
		if _, ok := seen[k]; !ok {
			keys = append(keys, k)
		}
		seen[k] = append(seen[k], x)
	}
	for _, k := range keys {
		xs := seen[k]
		if k.id < 0 {
			continue
		}
		// a request may pass a point more than once only at HandleForward (one pass per attempt)
		pos := 0
		for _, x := range xs {
			s.Checked(1)
			if x.Idx != pos {
				if k.point == bfe_module.HandleForward && x.Idx == 0 {
					pos = 0 // next attempt
				} else {
					s.FailK("C48.order", "filters-out-of-registration-order", "request r%d at %s: filter #%d ran where #%d was due", k.id, bfe_module.CallbackPointName(k.point), x.Idx, pos)
					return
				}
			}
			if x.Verdict != vGoOn {
				pos = -1 // nothing more may run in this pass
			} else {
				pos++
			}
		}
		for i, x := range xs {
			if x.Verdict != vGoOn && i+1 < len(xs) && !(k.point == bfe_module.HandleForward && xs[i+1].Idx == 0) {
				s.FailK("C48.stop", "filter-ran-after-stop-verdict", "request r%d at %s: filter #%d ran after filter #%d answered %s", k.id, bfe_module.CallbackPointName(k.point), xs[i+1].Idx, x.Idx, vNames[x.Verdict])
				return
			}
		}
	}
	// 1b. the accept chain, per connection
	acc := map[int][]filtExec{}
	for _, x := range f.acceptExecs {
		acc[x.ReqID] = append(acc[x.ReqID], x)
	}
	for ci := range e.clients {
		xs := acc[ci]
		for i, x := range xs {
			s.Checked(1)
			if x.Idx != i {
				s.FailK("C48.order", "accept-filters-out-of-registration-order", "connection %d at HANDLE_ACCEPT: filter #%d ran where #%d was due", ci, x.Idx, i)
				return
			}
			if x.Verdict != vGoOn && i+1 < len(xs) {
				s.FailK("C48.stop", "accept-filter-ran-after-stop-verdict", "connection %d at HANDLE_ACCEPT: filter #%d ran after filter #%d answered %s", ci, xs[i+1].Idx, x.Idx, vNames[x.Verdict])
				return
			}
		}
	}
	// 2. effects of request-phase verdicts
	for _, cr := range e.clients {
		if cr.ParseErr != nil {
			s.FailK("C48.parse", "client-stream-unparseable", "conn %d: response stream does not parse: %v; raw=%q", cr.Conn, cr.ParseErr, clip(cr.Raw, 300))
			return
		}
		fin := finals(cr.Responses)
		if aidx, av, ok := f.firstAcceptVerdict(cr.Conn); ok {
			// the connection is refused at accept: nothing is sent, no request of it is looked at
			s.Checked(1)
			if len(acc[cr.Conn]) > 0 && len(acc[cr.Conn]) <= aidx {
				s.FailK("C48.order", "accept-filter-skipped", "connection %d: HANDLE_ACCEPT#%d (due to answer %s) never ran although the chain was entered", cr.Conn, aidx, vNames[av])
				return
			}
			if len(cr.Raw) > 0 {
				s.FailK("C48.close", "bytes-sent-after-accept-close-verdict", "connection %d: an accept filter answered close but the client received %q", cr.Conn, clip(cr.Raw, 120))
				return
			}
			for _, p := range cr.Sent {
				for _, x := range f.execs {
					if x.ReqID == p.ID {
						s.FailK("C48.close", "request-processed-after-accept-close-verdict", "connection %d: an accept filter answered close, yet request r%d reached %s#%d", cr.Conn, p.ID, bfe_module.CallbackPointName(x.Point), x.Idx)
						return
					}
				}
				if as := e.attemptsOf(p.ID); len(as) > 0 {
					s.FailK("C48.backend", "backend-contacted-after-accept-close-verdict", "connection %d: an accept filter answered close, yet a backend was contacted for r%d", cr.Conn, p.ID)
					return
				}
			}
			if len(acc[cr.Conn]) > 0 && !cr.Closed && !cr.Reset {
				s.FailK("C48.close", "connection-open-after-accept-close-verdict", "connection %d: an accept filter answered close but the connection stayed open", cr.Conn)
				return
			}
			s.Probe("c48_accept_close_checked")
			continue
		}
		// 2a. every request that was served passes the whole finish chain up to its first stop verdict,
		// and a finish verdict there closes the connection after the reply
		for i, p := range cr.Sent {
			served := i < len(fin)
			for _, x := range f.execs {
				if x.ReqID == p.ID {
					served = true
				}
			}
			if !served {
				continue
			}
			ch := f.verdict[bfe_module.HandleRequestFinish]
			for idx := range ch {
				s.Checked(1)
				ran := false
				for _, x := range f.execs {
					if x.ReqID == p.ID && x.Point == bfe_module.HandleRequestFinish && x.Idx == idx {
						ran = true
					}
				}
				if !ran {
					s.FailK("C48.order", "finish-chain-filter-skipped", "request r%d was served but HANDLE_REQUEST_FINISH#%d never ran (every earlier filter of the chain continues)", p.ID, idx)
					return
				}
				if f.v(bfe_module.HandleRequestFinish, idx, p.ID) != vGoOn {
					if i < len(fin)-1 {
						s.FailK("C48.finish", "responses-after-finish-verdict", "request r%d: HANDLE_REQUEST_FINISH#%d answered finish but %d more responses followed on the connection", p.ID, idx, len(fin)-1-i)
						return
					}
					if !cr.Closed && !cr.Reset {
						s.FailK("C48.finish", "connection-open-after-finish-verdict", "request r%d: HANDLE_REQUEST_FINISH#%d answered finish, the connection stayed open", p.ID, idx)
						return
					}
					s.Probe("c48_request_finish_checked")
					break
				}
			}
		}
		// a redirect answer is the redirect and nothing else
		redirectBody := func(method, loc string) string {
			if method == "GET" {
				return "<a href=\"" + loc + "\">Found</a>.\n\n"
			}
			return ""
		}
		checkRedirect := func(i int, p *reqPlan, point, idx int) bool {
			if i >= len(fin) {
				return true
			}
			m := fin[i]
			loc := fmt.Sprintf("/moved/r%d/p%d/f%d", p.ID, point, idx)
			if m.Status != 302 || len(m.Get("Location")) != 1 || m.Get("Location")[0] != loc {
				s.FailK("C48.redirect", "redirect-verdict-altered", "request r%d: redirect to %s (302) arrived as status %d Location=%v", p.ID, loc, m.Status, m.Get("Location"))
				return false
			}
			if string(m.Body) != redirectBody(p.Method, loc) {
				s.FailK("C48.redirect", "redirect-carries-other-content", "request r%d (%s): %s#%d answered redirect, the client received the 302 with a %d-byte body %q instead of the redirect note", p.ID, p.Method, bfe_module.CallbackPointName(point), idx, len(m.Body), clip(m.Body, 120))
				return false
			}
			return true
		}
		for i, p := range cr.Sent {
			point, idx, v, ok := f.firstRequestVerdict(p.ID)
			// a response-phase filter may replace whatever response there is by a redirect
			rspRedirect := -1
			for _, x := range f.execs {
				if x.ReqID == p.ID && x.Point == bfe_module.HandleReadResponse && x.Verdict == vRedirect {
					rspRedirect = x.Idx
				}
			}
			if !ok {
				if rspRedirect >= 0 {
					s.Checked(1)
					if !checkRedirect(i, p, bfe_module.HandleReadResponse, rspRedirect) {
						return
					}
					s.Probe("c48_response_phase_redirect_checked")
				}
				continue
			}
			processed, ran := false, false
			for _, x := range f.execs {
				if x.ReqID == p.ID {
					processed = true
					if x.Point == point && x.Idx == idx {
						ran = true
					}
				}
			}
			if !processed {
				continue // the connection ended before this request was looked at
			}
			s.Checked(1)
			if !ran {
				s.FailK("C48.order", "filter-skipped", "request r%d was processed but %s#%d (due to answer %s, every earlier filter continues) never ran", p.ID, bfe_module.CallbackPointName(point), idx, vNames[v])
				return
			}
			// no later request-phase filter, no backend contact
			for _, x := range f.execs {
				// (response-phase points still see a module's response or redirect: only the rest of the
				// request phase and the forward point are skipped)
				if x.ReqID == p.ID && (x.Point > point || (x.Point == point && x.Idx > idx)) && x.Point <= bfe_module.HandleForward {
					s.FailK("C48.stop", "later-point-ran-after-stop-verdict", "request r%d: %s#%d answered %s but %s#%d still ran", p.ID, bfe_module.CallbackPointName(point), idx, vNames[v], bfe_module.CallbackPointName(x.Point), x.Idx)
					return
				}
			}
			if as := e.attemptsOf(p.ID); len(as) > 0 {
				s.FailK("C48.backend", "backend-contacted-after-"+vNames[v]+"-verdict", "request r%d: a filter answered %s, yet a backend was contacted (%d attempts)", p.ID, vNames[v], len(as))
				return
			}
			if v == vResponse || v == vRedirect {
				// a response-phase filter that later answers finish for the same request takes the
				// reply over (finish: some reply, then the connection closes)
				for _, x := range f.execs {
					if x.ReqID == p.ID && x.Point == bfe_module.HandleReadResponse && x.Verdict == vFinish {
						v = vFinish
					}
				}
				if rspRedirect >= 0 {
					v, point, idx = vRedirect, bfe_module.HandleReadResponse, rspRedirect
				}
			}
			switch v {
			case vClose:
				if i < len(fin) {
					s.FailK("C48.close", "bytes-sent-after-close-verdict", "request r%d: filter answered close but the client received a response (status %d)", p.ID, fin[i].Status)
					return
				}
				if !cr.Closed && !cr.Reset {
					s.FailK("C48.close", "connection-open-after-close-verdict", "request r%d: filter answered close but the connection stayed open", p.ID)
					return
				}
				s.Probe("c48_close_checked")
			case vResponse:
				if i >= len(fin) {
					s.FailK("C48.response", "response-verdict-not-delivered", "request r%d: filter answered with a response, the client got none", p.ID)
					return
				}
				m := fin[i]
				want := filterBody(p.ID, point, idx)
				wb := want
				if p.Method == "HEAD" {
					wb = ""
				}
				if m.Status != 403 || len(m.Get("X-Filter")) != 1 || m.Get("X-Filter")[0] != fmt.Sprintf("r%d-p%d-f%d", p.ID, point, idx) || string(m.Body) != wb {
					s.FailK("C48.response", "response-verdict-altered", "request r%d: filter response (403, X-Filter, %q) arrived as status %d X-Filter=%v body %q", p.ID, want, m.Status, m.Get("X-Filter"), clip(m.Body, 80))
					return
				}
				s.Probe("c48_response_checked")
			case vRedirect:
				if i >= len(fin) {
					s.FailK("C48.redirect", "redirect-verdict-not-delivered", "request r%d: filter answered redirect, the client got nothing", p.ID)
					return
				}
				if !checkRedirect(i, p, point, idx) {
					return
				}
				s.Probe("c48_redirect_checked")
			case vFinish:
				// a reply, then the connection closes: nothing after this response
				if i < len(fin)-1 {
					s.FailK("C48.finish", "responses-after-finish-verdict", "request r%d: filter answered finish but %d more responses followed on the connection", p.ID, len(fin)-1-i)
					return
				}
				if i == len(fin)-1 && !cr.Closed {
					s.FailK("C48.finish", "connection-open-after-finish-verdict", "request r%d: filter answered finish, the connection stayed open after the reply", p.ID)
					return
				}
				s.Probe("c48_finish_checked")
			}
			if v == vClose || v == vFinish {
				break // the connection is over
			}
		}
	}
}

// C25 (HTTP/1 leg): what the node writes to a backend is exactly one well-formed
// request per forwarded request, with the client's method, target and body, and
// no header field the client did not send (plus BFE's own framing).
func (e *eng) checkC25() {
	s := e.s
	for _, a := range e.attempts {
		if len(a.RawReq) == 0 {
			continue
		}
		s.Checked(1)
		if a.ParseErr != nil && !strings.Contains(a.ParseErr.Error(), "connection ended") {
			s.FailK("C25.wellformed", "backend-received-malformed-request", "backend %s received bytes that a strict parser rejects (%v): %q", a.Backend, a.ParseErr, clip(a.RawReq, 300))
			return
		}
		if a.Req == nil {
			continue
		}
		p := e.plans[reqIDOf(a.Req.Target)]
		if p == nil {
			s.FailK("C25.injected", "unknown-request-at-backend", "backend %s received a request no client sent: %s %s", a.Backend, a.Req.Method, a.Req.Target)
			return
		}
		if a.Req.Method != p.Method || a.Req.Target != p.Path {
			s.FailK("C25.line", "request-line-altered", "client sent %s %q, backend received %s %q", p.Method, p.Path, a.Req.Method, a.Req.Target)
			return
		}
		if !bytes.Equal(a.Req.Body, p.Body) {
			s.FailK("C25.body", "body-altered", "request r%d: client body %d bytes, backend body %d bytes", p.ID, len(p.Body), len(a.Req.Body))
			return
		}
		// every field at the backend was sent by the client (name case-insensitive, same value) or is framing / Host
		sent := map[string][]string{}
		for _, f := range p.Fields {
			k := strings.ToLower(f.Name)
			sent[k] = append(sent[k], strings.Trim(f.Value, " \t"))
		}
		for _, f := range a.Req.Fields {
			k := strings.ToLower(f.Name)
			if k == "host" || k == "content-length" || k == "transfer-encoding" || k == "user-agent" && len(sent[k]) == 0 {
				continue
			}
			ok := false
			for _, v := range sent[k] {
				if v == f.Value || strings.Replace(strings.Replace(v, "\r\n", "", -1), "\r", "", -1) == f.Value || foldEq(v, f.Value) {
					ok = true
				}
			}
			if !ok {
				s.FailK("C25.fields", "field-not-sent-by-client", "backend received %s: %q which the client did not send (client fields %v)", f.Name, clip([]byte(f.Value), 80), fieldNames(p.Fields))
				return
			}
		}
		s.Probe("c25_forwarded_checked")
	}
}

// foldEq: an obs-folded value may reach the backend with the fold replaced by spaces.
func foldEq(sent, got string) bool {
	n := strings.Join(strings.Fields(strings.Replace(sent, "\r\n", " ", -1)), " ")
	return n == strings.Join(strings.Fields(got), " ")
}

func inTrust(ip string) bool {
	return strings.HasPrefix(ip, "10.77.") || ip == "172.20.1.1"
}

// C29: for an untrusted socket peer the client address BFE uses and the
// X-Real-Ip / X-Real-Port it sends equal the peer address whatever the request
// says, and X-Forwarded-For ends with the peer IP; trusted peers are honoured.
func (e *eng) checkC29() {
	s := e.s
	for _, a := range e.attempts {
		if a.Req == nil {
			continue
		}
		p := e.plans[reqIDOf(a.Req.Target)]
		if p == nil {
			continue
		}
		peer := e.peerAddr[p.Conn]
		ip, port := peer[:strings.LastIndex(peer, ":")], peer[strings.LastIndex(peer, ":")+1:]
		s.Checked(1)
		xff := a.Req.Get("X-Forwarded-For")
		last := ""
		if len(xff) > 0 {
			parts := strings.Split(xff[len(xff)-1], ",")
			last = strings.TrimSpace(parts[len(parts)-1])
		}
		if last != ip {
			s.FailK("C29.xff", "xff-does-not-end-with-peer", "peer %s: X-Forwarded-For at the backend is %q", peer, xff)
			return
		}
		if !inTrust(ip) {
			if v := a.Req.Get("X-Real-Ip"); len(v) != 1 || v[0] != ip {
				s.FailK("C29.realip", "untrusted-peer-real-ip-spoofed", "untrusted peer %s: backend received X-Real-Ip %q", peer, v)
				return
			}
			if v := a.Req.Get("X-Real-Port"); len(v) != 1 || v[0] != port {
				s.FailK("C29.realip", "untrusted-peer-real-port-spoofed", "untrusted peer %s: backend received X-Real-Port %q", peer, v)
				return
			}
			if got := e.seenAddr[p.ID]; got != peer {
				s.FailK("C29.clientaddr", "untrusted-peer-clientaddr-spoofed", "untrusted peer %s: req.ClientAddr is %s", peer, got)
				return
			}
			s.Probe("c29_untrusted_checked")
		} else {
			// trusted: a valid X-Real-Ip sent by the peer is honoured (when it sent exactly one:
			// which of several is taken is not specified)
			nreal := 0
			for _, f := range p.Fields {
				if strings.EqualFold(f.Name, "X-Real-Ip") {
					nreal++
				}
			}
			for _, f := range p.Fields {
				if nreal == 1 && strings.EqualFold(f.Name, "X-Real-Ip") && net.ParseIP(f.Value) != nil {
					if got := e.seenAddr[p.ID]; !strings.HasPrefix(got, f.Value+":") {
						s.FailK("C29.trusted", "trusted-peer-header-ignored", "trusted peer %s sent X-Real-Ip %s, req.ClientAddr is %s", peer, f.Value, got)
						return
					}
					s.Probe("c29_trusted_checked")
				}
			}
		}
	}
}

// C54: a compressed response decompresses to exactly the backend body, carries
// no stale Content-Length and is only sent when the request accepted that encoding.
func (e *eng) checkC54() {
	s := e.s
	for _, cr := range e.clients {
		if cr.ParseErr != nil {
			s.FailK("C54.parse", "client-stream-unparseable", "conn %d: response stream does not parse: %v; raw=%q", cr.Conn, cr.ParseErr, clip(cr.Raw, 300))
			return
		}
		fin := finals(cr.Responses)
		for i, p := range cr.Sent {
			if i >= len(fin) {
				break
			}
			m := fin[i]
			ce := m.Get("Content-Encoding")
			if len(ce) == 0 {
				continue
			}
			last, ap := e.servedAttempt(p)
			if last == nil || !last.Full {
				continue
			}
			s.Checked(1)
			enc := strings.ToLower(ce[0])
			acc := ""
			for _, f := range p.Fields {
				if f.Name == "Accept-Encoding" {
					acc = f.Value
				}
			}
			if !tokenIn(acc, enc) {
				s.FailK("C54.accept", "encoding-not-accepted-by-request", "request r%d accepted %q but the response is Content-Encoding: %s", p.ID, acc, enc)
				return
			}
			if m.Has("Content-Length") && m.Framing != "length" {
				s.FailK("C54.length", "stale-content-length", "request r%d: compressed response still carries Content-Length %v", p.ID, m.Get("Content-Length"))
				return
			}
			var plain []byte
			var derr error
			switch enc {
			case "gzip":
				zr, err := gzip.NewReader(bytes.NewReader(m.Body))
				if err != nil {
					derr = err
				} else {
					plain, derr = ioutil.ReadAll(zr)
				}
			case "br":
				plain, derr = ioutil.ReadAll(brotli.NewReader(bytes.NewReader(m.Body)))
			default:
				continue
			}
			want := ap.Resp.Body
			if p.Method == "HEAD" {
				continue
			}
			if derr != nil || !bytes.Equal(plain, want) {
				s.FailK("C54.body", "decompressed-body-differs", "request r%d (%s): client body (%d bytes, %s) decompresses to %d bytes (err=%v), backend body is %d bytes", p.ID, p.Method, len(m.Body), enc, len(plain), derr, len(want))
				return
			}
			if m.Has("Content-Length") {
				if v := m.Get("Content-Length"); v[0] == fmt.Sprint(len(want)) && len(want) != len(m.Body) {
					s.FailK("C54.length", "stale-content-length", "request r%d: Content-Length %s is the uncompressed length", p.ID, v[0])
					return
				}
			}
			s.Probe("c54_compressed_checked")
		}
	}
}

func tokenIn(list, tok string) bool {
	// RFC 7231 5.3.4: a coding is acceptable when it (or "*") is listed with a weight above zero
	for _, t := range strings.Split(list, ",") {
		t = strings.TrimSpace(t)
		q := 1.0
		if i := strings.IndexByte(t, ';'); i >= 0 {
			for _, par := range strings.Split(t[i+1:], ";") {
				par = strings.TrimSpace(par)
				if len(par) > 2 && (par[0] == 'q' || par[0] == 'Q') && par[1] == '=' {
					if f, err := strconv.ParseFloat(strings.TrimSpace(par[2:]), 64); err == nil {
						q = f
					} else {
						q = 0
					}
				}
			}
			t = strings.TrimSpace(t[:i])
		}
		if (strings.EqualFold(t, tok) || t == "*") && q > 0 {
			return true
		}
	}
	return false
}
