//verif:if-not-source bfe_server/chunk_writer.go contains statusLines = make(map[int]string)
//go:build verif
// +build verif

package bfe_server

// The status-line cache was changed by the tree under test: it cannot be reset
// from here. Runs may then differ slightly between "first in a process" and
// "later in a process"; the driver still requires a violation to reproduce
// (same clause and key) in a fresh process before reporting it.
func resetProcessCaches() {}
