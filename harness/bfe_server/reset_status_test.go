//verif:if-source bfe_server/chunk_writer.go contains statusLines = make(map[int]string)
//go:build verif
// +build verif

package bfe_server

// resetProcessCaches puts the package's process-wide caches back to their
// start-of-process state, so that a run does not depend on the runs executed
// before it in the same worker process (exact replay in a fresh process).
func resetProcessCaches() {
	statusMu.Lock()
	statusLines = make(map[int]string)
	statusMu.Unlock()
}
