//go:build verif
// +build verif

package bfe_server

import (
	"strings"

	"verif/simrt"
	"verif/simrt/simnet"
)

func defaultCluster(name string, bs ...*nbackend) *ncluster {
	return &ncluster{Name: name, Subs: map[string][]*nbackend{"sub1." + name: bs}, SubWeights: map[string]int{"sub1." + name: 10},
		RetryMax: 2, CrossRetry: 0, RetryLevel: 0, MaxIdle: 2, RespHdrTO: 5000, ConnTO: 1000, ReadCliTO: 30000, WriteCliTO: 60000, ReadAgain: 30000, ReqBuf: 512, ResFlush: -1}
}

func runSmoke(s *simrt.Sim) {
	net := simnet.New(s)
	b := &nbackend{Name: "b1", Addr: "10.1.0.1", Port: 8001, Weight: 1}
	c := &nconf{Clusters: []*ncluster{defaultCluster("c1", b)}, Hosts: map[string]string{"a.example": "c1"}}
	n, err := startNode(s, net, c, nil)
	if err != nil {
		s.Fail("SMOKE.start", "%v", err)
		return
	}
	l := net.Listen(b.AddrInfo())
	var got string
	be := simrt.GoNamed("backend", nil, func() {
		conn, err := l.Accept()
		if err != nil {
			return
		}
		var buf []byte
		k, _ := readUntil(conn, &buf, headEnd)
		if k > 0 {
			got = string(buf[:k])
		}
		conn.Write([]byte("HTTP/1.1 200 OK\r\nContent-Length: 5\r\nX-B: 1\r\n\r\nhello"))
		conn.Close()
	})
	cli := n.connect("192.0.2.7:5555")
	cli.Write([]byte("GET /x?y=1 HTTP/1.1\r\nHost: a.example\r\nConnection: close\r\n\r\n"))
	var resp []byte
	tmp := make([]byte, 1024)
	for {
		k, err := cli.Read(tmp)
		resp = append(resp, tmp[:k]...)
		if err != nil {
			break
		}
	}
	simrt.Join(be)
	s.Note("op", "backend got: "+strings.Replace(got, "\r\n", "|", -1))
	s.Note("op", "client got: "+strings.Replace(string(resp), "\r\n", "|", -1))
	if !strings.Contains(string(resp), "200 OK") || !strings.HasSuffix(string(resp), "hello") {
		s.Fail("SMOKE.resp", "unexpected response %q (backend got %q)", resp, got)
	}
	s.Sample = map[string]interface{}{"resp": string(resp), "backend_got": got}
}
