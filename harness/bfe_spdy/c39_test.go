//go:build verif
// +build verif

package bfe_spdy

import (
	"bytes"
	"encoding/binary"
	"fmt"
	"io"
	"reflect"
	"runtime"
	"sort"
	"strings"

	http "github.com/bfenetworks/bfe/bfe_http"
	"verif/simrt"
	"verif/simrt/simio"
)

// C39: the SPDY framer on a byte stream that arrives in seeded segments. (1) Sequences of frames with
// seeded header sets (upper case, non-ASCII names, empty values, several values) written through one
// compression context are read back, through one decompression context, with the same fields.
// (2) A frame whose length field disagrees with its content, between two good frames: the reader
// reports an error or finds the next frame exactly. (3) Damaged and raw streams: no panic.
// (4) A tiny frame that announces a huge name or value: no allocation the frame cannot justify.

var c39names = []string{"x-a", "x-b", "accept", "X-Upper", "CONTENT-type", "x-é", "x-K", "İd", "x-ſ", ":path", ":method", "cookie", "x-long-" + strings.Repeat("n", 40)}

func genHeader(tp *simrt.Tape) (http.Header, map[string][]string) {
	h := http.Header{}
	want := map[string][]string{}
	for k := tp.Draw(6, "hdr.n"); k > 0; k-- {
		name := c39names[tp.Draw(len(c39names), "hdr.name")]
		low := strings.ToLower(name)
		if _, dup := want[low]; dup {
			continue
		}
		var vals []string
		for j := 1 + tp.Draw(3, "hdr.nvals"); j > 0; j-- {
			switch tp.Draw(4, "hdr.val") {
			case 0:
				vals = append(vals, "")
			case 1:
				vals = append(vals, fmt.Sprintf("v%d", tp.Draw(30, "hdr.val_n")))
			case 2:
				vals = append(vals, "päivää \xff\xfe bytes")
			case 3:
				vals = append(vals, strings.Repeat("z", tp.Draw(600, "hdr.val_len")))
			}
		}
		if tp.Chance(1, 8, "hdr.no_values") {
			// a key with an empty value list travels as one empty value
			h[name] = []string{}
			want[low] = []string{""}
			continue
		}
		h[name] = vals
		want[low] = vals
	}
	return h, want
}

func hdrEqual(got http.Header, want map[string][]string) bool {
	if len(got) != len(want) {
		return false
	}
	for k, v := range want {
		g, ok := got[k]
		if !ok {
			g, ok = got[http.CanonicalHeaderKey(k)] // the reader files ASCII names under their canonical form
		}
		if !ok || len(g) != len(v) {
			return false
		}
		for i := range v {
			if g[i] != v[i] {
				return false
			}
		}
	}
	return true
}

func hdrStr(h map[string][]string) string {
	var ks []string
	for k := range h {
		ks = append(ks, k)
	}
	sort.Strings(ks)
	var b []string
	for _, k := range ks {
		v := fmt.Sprintf("%q", h[k])
		if len(v) > 60 {
			v = v[:60] + "..."
		}
		b = append(b, fmt.Sprintf("%q:%s", k, v))
	}
	return "{" + strings.Join(b, ", ") + "}"
}

func runC39(s *simrt.Sim) {
	tp := s.Tape
	seg := 0
	if simrt.Mode() != "nofault" {
		seg = []int{2, 4, 16}[tp.Draw(3, "io.seg_class")]
	}
	switch tp.Draw(4, "part") {
	case 0, 1:
		c39roundtrip(s, seg)
	case 2:
		c39boundary(s, seg)
	case 3:
		if tp.Chance(1, 2, "alloc") {
			c39alloc(s)
		} else {
			c39damage(s, seg)
		}
	}
}

type wframe struct {
	kind   string
	stream uint32
	fin    bool
	hdr    map[string][]string
	data   []byte
	v      uint32
}

func c39roundtrip(s *simrt.Sim, seg int) {
	tp := s.Tape
	var wire bytes.Buffer
	w, _ := NewFramer(&wire, nil)
	var want []wframe
	n := tp.Range(1, 8, "n_frames")
	for i := 0; i < n; i++ {
		id := uint32(1 + tp.Draw(9, "stream"))
		fin := tp.Chance(1, 2, "fin")
		var fl ControlFlags
		if fin {
			fl = ControlFlagFin
		}
		var err error
		switch tp.Draw(8, "frame.type") {
		case 0:
			h, wh := genHeader(tp)
			err = w.WriteFrame(&SynStreamFrame{CFHeader: ControlFrameHeader{Flags: fl}, StreamId: StreamId(id), Priority: uint8(tp.Draw(8, "prio")), Headers: h})
			want = append(want, wframe{kind: "syn_stream", stream: id, fin: fin, hdr: wh})
		case 1:
			h, wh := genHeader(tp)
			err = w.WriteFrame(&SynReplyFrame{CFHeader: ControlFrameHeader{Flags: fl}, StreamId: StreamId(id), Headers: h})
			want = append(want, wframe{kind: "syn_reply", stream: id, fin: fin, hdr: wh})
		case 2:
			h, wh := genHeader(tp)
			err = w.WriteFrame(&HeadersFrame{CFHeader: ControlFrameHeader{Flags: fl}, StreamId: StreamId(id), Headers: h})
			want = append(want, wframe{kind: "headers", stream: id, fin: fin, hdr: wh})
		case 3:
			d := make([]byte, []int{0, 1, 50, 5000}[tp.Draw(4, "data.class")])
			for j := range d {
				d[j] = byte(j * 7)
			}
			f := &DataFrame{StreamId: StreamId(id), Data: d}
			if fin {
				f.Flags = DataFlagFin
			}
			err = w.WriteFrame(f)
			want = append(want, wframe{kind: "data", stream: id, fin: fin, data: d})
		case 4:
			v := uint32(1 + tp.Draw(11, "rst.status"))
			err = w.WriteFrame(&RstStreamFrame{StreamId: StreamId(id), Status: RstStreamStatus(v)})
			want = append(want, wframe{kind: "rst", stream: id, v: v})
		case 5:
			v := uint32(tp.Draw(1<<20, "ping.id"))
			err = w.WriteFrame(&PingFrame{Id: v})
			want = append(want, wframe{kind: "ping", v: v})
		case 6:
			v := uint32(1 + tp.Draw(1<<20, "wu.delta"))
			err = w.WriteFrame(&WindowUpdateFrame{StreamId: StreamId(id), DeltaWindowSize: v})
			want = append(want, wframe{kind: "window", stream: id, v: v})
		case 7:
			v := uint32(tp.Draw(1<<20, "settings.val"))
			err = w.WriteFrame(&SettingsFrame{FlagIdValues: []SettingsFlagIdValue{{0, SettingsInitialWindowSize, v}}})
			want = append(want, wframe{kind: "settings", v: v})
		}
		if err != nil {
			want = want[:len(want)-1] // the writer refuses this frame: nothing was written
		}
	}
	stream := append([]byte(nil), wire.Bytes()...)
	s.Note("op", fmt.Sprintf("%d frames, %d bytes", len(want), len(stream)))
	rd := simio.NewReader(s, stream, seg)
	r, _ := NewFramer(nil, rd)
	for i, wf := range want {
		var f Frame
		var err error
		func() {
			defer func() {
				if p := recover(); p != nil {
					err = fmt.Errorf("PANIC: %v", p)
				}
			}()
			f, err = r.ReadFrame()
		}()
		s.Checked(1)
		if err != nil {
			s.FailK("C39.roundtrip", "written-frame-not-read-back", "frame %d (%s, headers %s): reading back what the framer wrote fails: %v", i, wf.kind, hdrStr(wf.hdr), err)
			return
		}
		var got wframe
		switch f := f.(type) {
		case *SynStreamFrame:
			got = wframe{kind: "syn_stream", stream: uint32(f.StreamId), fin: f.StreamEnded(), hdr: f.Headers}
		case *SynReplyFrame:
			got = wframe{kind: "syn_reply", stream: uint32(f.StreamId), fin: f.StreamEnded(), hdr: f.Headers}
		case *HeadersFrame:
			got = wframe{kind: "headers", stream: uint32(f.StreamId), fin: f.CFHeader.Flags&ControlFlagFin != 0, hdr: f.Headers}
		case *DataFrame:
			got = wframe{kind: "data", stream: uint32(f.StreamId), fin: f.StreamEnded(), data: f.Data}
		case *RstStreamFrame:
			got = wframe{kind: "rst", stream: uint32(f.StreamId), v: uint32(f.Status)}
		case *PingFrame:
			got = wframe{kind: "ping", v: f.Id}
		case *WindowUpdateFrame:
			got = wframe{kind: "window", stream: uint32(f.StreamId), v: f.DeltaWindowSize}
		case *SettingsFrame:
			got = wframe{kind: "settings"}
			if len(f.FlagIdValues) == 1 {
				got.v = f.FlagIdValues[0].Value
			}
		}
		if got.kind != wf.kind || got.stream != wf.stream || got.fin != wf.fin || got.v != wf.v || !bytes.Equal(got.data, wf.data) {
			s.FailK("C39.roundtrip", "frame-fields-differ", "frame %d written as %s s%d fin=%v v=%d data=%d bytes, read back as %s s%d fin=%v v=%d data=%d bytes", i, wf.kind, wf.stream, wf.fin, wf.v, len(wf.data), got.kind, got.stream, got.fin, got.v, len(got.data))
			return
		}
		if wf.hdr != nil && !hdrEqual(got.hdr, wf.hdr) {
			s.FailK("C39.roundtrip", "headers-differ", "frame %d (%s): headers written %s, read back %s", i, wf.kind, hdrStr(wf.hdr), hdrStr(got.hdr))
			return
		}
	}
	if _, err := r.ReadFrame(); err != io.EOF {
		s.FailK("C39.boundary", "bytes-left-after-last-frame", "after the %d written frames ReadFrame returns %v instead of EOF", len(want), err)
		return
	}
	s.Probe("spdy_frames_roundtrip")
}

func cfh(t ControlFrameType, flags uint8, length uint32) []byte {
	b := make([]byte, 8)
	binary.BigEndian.PutUint16(b[0:], 0x8000|Version)
	binary.BigEndian.PutUint16(b[2:], uint16(t))
	binary.BigEndian.PutUint32(b[4:], uint32(flags)<<24|length)
	return b
}

func u32(v uint32) []byte { b := make([]byte, 4); binary.BigEndian.PutUint32(b, v); return b }

// c39boundary: [PING 1][a frame whose length field and content disagree][PING 777]
func c39boundary(s *simrt.Sim, seg int) {
	tp := s.Tape
	extra := 1 + tp.Draw(12, "extra")
	junk := bytes.Repeat([]byte{0x80, 0x03, 0x00, 0x06}, 4)[:extra] // looks like the start of a control frame
	var x []byte
	name := ""
	switch tp.Draw(6, "boundary.kind") {
	case 0:
		name = "PING"
		x = append(cfh(TypePing, 0, uint32(4+extra)), append(u32(5), junk...)...)
	case 1:
		name = "RST_STREAM"
		x = append(cfh(TypeRstStream, 0, uint32(8+extra)), append(append(u32(1), u32(5)...), junk...)...)
	case 2:
		name = "WINDOW_UPDATE"
		x = append(cfh(TypeWindowUpdate, 0, uint32(8+extra)), append(append(u32(1), u32(100)...), junk...)...)
	case 3:
		name = "GOAWAY"
		x = append(cfh(TypeGoAway, 0, uint32(8+extra)), append(append(u32(1), u32(0)...), junk...)...)
	case 4:
		name = "SETTINGS"
		body := append(u32(1), append(u32(uint32(SettingsInitialWindowSize)), u32(1000)...)...)
		x = append(cfh(TypeSettings, 0, uint32(len(body)+extra)), append(body, junk...)...)
	case 5:
		name = "SYN_STREAM"
		var wb bytes.Buffer
		w, _ := NewFramer(&wb, nil)
		w.WriteFrame(&SynStreamFrame{StreamId: 1, Headers: http.Header{"x-a": {"1"}}})
		x = wb.Bytes()
		l := binary.BigEndian.Uint32(x[4:]) & 0xffffff
		binary.BigEndian.PutUint32(x[4:], l+uint32(extra))
		x = append(x, junk...)
	}
	var pre, post bytes.Buffer
	w, _ := NewFramer(&pre, nil)
	w.WriteFrame(&PingFrame{Id: 1})
	w2, _ := NewFramer(&post, nil)
	w2.WriteFrame(&PingFrame{Id: 777})
	stream := append(append(append([]byte(nil), pre.Bytes()...), x...), post.Bytes()...)
	s.Note("op", fmt.Sprintf("%s frame with %d bytes more than its content inside its length", name, extra))
	r, _ := NewFramer(nil, simio.NewReader(s, stream, seg))
	if f, err := r.ReadFrame(); err != nil || f.(*PingFrame).Id != 1 {
		s.FailK("C39.boundary", "first-frame-misread", "%v", err)
		return
	}
	s.Checked(1)
	var f Frame
	var err error
	func() {
		defer func() {
			if p := recover(); p != nil {
				err = fmt.Errorf("PANIC: %v", p)
			}
		}()
		f, err = r.ReadFrame()
	}()
	if err != nil {
		if strings.HasPrefix(err.Error(), "PANIC") {
			s.FailK("C39.panic", "readframe-panics", "%s frame with %d surplus bytes: %v", name, extra, err)
			return
		}
		s.Probe("spdy_bad_length_refused")
		return
	}
	// accepted: then exactly its length was consumed and the next frame is the PING
	f2, err2 := r.ReadFrame()
	if p, ok := f2.(*PingFrame); err2 != nil || !ok || p.Id != 777 {
		s.FailK("C39.boundary", "frame-boundary-lost:"+name, "a %s frame whose length field covers %d bytes more than its content was returned (%T) without error, and the next ReadFrame did not find the following PING: got %v, %v", name, extra, f, f2, err2)
		return
	}
	s.Probe("spdy_bad_length_skipped")
}

func c39damage(s *simrt.Sim, seg int) {
	tp := s.Tape
	var wire bytes.Buffer
	w, _ := NewFramer(&wire, nil)
	for i := tp.Range(1, 4, "n_frames"); i > 0; i-- {
		h, _ := genHeader(tp)
		w.WriteFrame(&SynStreamFrame{StreamId: StreamId(1 + 2*i), Headers: h})
		w.WriteFrame(&DataFrame{StreamId: StreamId(1 + 2*i), Data: []byte("body")})
	}
	stream := wire.Bytes()
	if tp.Chance(1, 3, "raw") {
		stream = make([]byte, tp.Draw(60, "raw.len"))
		for i := range stream {
			stream[i] = byte(tp.Draw(256, "raw.byte"))
		}
		if len(stream) > 5 {
			stream[4] = 0 // keep the announced length small
		}
	} else {
		for k := 1 + tp.Draw(3, "damage.n"); k > 0 && len(stream) > 0; k-- {
			i := tp.Draw(len(stream), "damage.at")
			if i >= 4 && i < 6 || tp.Chance(1, 2, "damage.truncate") {
				stream = stream[:i]
			} else {
				stream[i] ^= 1 << uint(tp.Draw(8, "damage.bit"))
			}
		}
	}
	s.Fault("stream_damaged")
	s.Note("op", fmt.Sprintf("damaged stream %x", clip(stream, 40)))
	r, _ := NewFramer(nil, simio.NewReader(s, stream, seg))
	var err error
	func() {
		defer func() {
			if p := recover(); p != nil {
				err = fmt.Errorf("PANIC: %v", p)
			}
		}()
		for i := 0; i < 64; i++ {
			if _, e := r.ReadFrame(); e != nil {
				return
			}
		}
	}()
	s.Checked(1)
	if err != nil {
		s.FailK("C39.panic", "readframe-panics", "stream %x: %v", clip(stream, 80), err)
		return
	}
	s.Probe("spdy_damaged_stream_checked")
}

// c39alloc: an uncompressed HEADERS frame of a few dozen bytes whose name (or value) length field says 64 MiB
func c39alloc(s *simrt.Sim) {
	tp := s.Tape
	huge := uint32(64 << 20)
	var blk []byte
	what := ""
	switch tp.Draw(3, "alloc.kind") {
	case 0:
		what = "name length"
		blk = append(u32(1), append(u32(huge), []byte("x-a")...)...)
	case 1:
		what = "value length"
		blk = append(u32(1), append(append(u32(3), []byte("x-a")...), append(u32(huge), []byte("v")...)...)...)
	case 2:
		what = "number of headers"
		blk = u32(huge)
	}
	frame := append(cfh(TypeHeaders, 0, uint32(4+len(blk))), append(u32(1), blk...)...)
	r, _ := NewFramer(nil, bytes.NewReader(frame))
	r.headerCompressionDisabled = true
	var m0, m1 runtime.MemStats
	runtime.ReadMemStats(&m0)
	var err error
	func() {
		defer func() {
			if p := recover(); p != nil {
				err = fmt.Errorf("PANIC: %v", p)
			}
		}()
		_, err = r.ReadFrame()
	}()
	runtime.ReadMemStats(&m1)
	s.Checked(1)
	s.Note("op", fmt.Sprintf("%d-byte HEADERS frame announcing a %s of %d", len(frame), what, huge))
	if err != nil && strings.HasPrefix(err.Error(), "PANIC") {
		s.FailK("C39.panic", "readframe-panics", "a %d-byte frame with a %s of %d: %v", len(frame), what, huge, err)
		return
	}
	if d := m1.TotalAlloc - m0.TotalAlloc; d > 4<<20 {
		s.FailK("C39.alloc", "allocation-beyond-frame:"+strings.Replace(what, " ", "-", -1), "reading a %d-byte frame allocated %d bytes: the %s field (%d) is trusted before the bytes are there", len(frame), d, what, huge)
		return
	}
	if err == nil {
		s.FailK("C39.alloc", "impossible-length-accepted", "a %d-byte frame with a %s of %d was returned without error", len(frame), what, huge)
		return
	}
	s.Probe("spdy_alloc_checked")
}

var _ = reflect.DeepEqual
