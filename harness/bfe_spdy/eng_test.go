//go:build verif
// +build verif

package bfe_spdy

import (
	"bytes"
	"fmt"
	"io"
	"strings"
	"testing"
	"time"

	"github.com/baidu/go-lib/web-monitor/metrics"

	http "github.com/bfenetworks/bfe/bfe_http"
	"verif/simrt"
	"verif/simrt/href"
	"verif/simrt/simnet"
	"verif/simrt/simsync"
)

// Engine F: the real bfe_spdy server (serve loop, readFrames, writeFrames, handler goroutines) on one
// simulated connection. The scripted client speaks SPDY/3.1 through bfe_spdy's own Framer (no
// independent SPDY codec exists in this sandbox; the framer itself is the subject of C39).

func TestSim(t *testing.T) {
	opt := simrt.Options{MaxSteps: 600000}
	simrt.Main(t, map[string]simrt.Prop{
		"C40":     {Run: runSpdy("C40"), Opt: opt},
		"C25spdy": {Run: runSpdy("C25"), Opt: opt},
		"C39":     {Run: runC39},
	})
}

type sframe struct {
	Seq    uint64
	Kind   string // syn_reply data rst goaway window settings ping headers
	Stream uint32
	Fin    bool
	Data   []byte
	Hdr    http.Header
	Status uint32
	Delta  uint32
	PingID uint32
}

func (f sframe) String() string {
	switch f.Kind {
	case "data":
		return fmt.Sprintf("DATA s%d len=%d fin=%v", f.Stream, len(f.Data), f.Fin)
	case "syn_reply":
		return fmt.Sprintf("SYN_REPLY s%d %v fin=%v", f.Stream, f.Hdr, f.Fin)
	case "rst":
		return fmt.Sprintf("RST_STREAM s%d status=%d", f.Stream, f.Status)
	case "goaway":
		return fmt.Sprintf("GOAWAY status=%d", f.Status)
	case "window":
		return fmt.Sprintf("WINDOW_UPDATE s%d +%d", f.Stream, f.Delta)
	}
	return fmt.Sprintf("%s s%d", f.Kind, f.Stream)
}

type splan struct {
	ID          uint32
	Path        string
	Method      string
	ReqBody     []byte
	Read        int // 0 all, 1 nothing, 2 part
	ReadPart    int
	ReadStep    int
	ReadSleepMs int
	Writes      []int
	Hold        func() bool

	Started, Done                 bool
	GotBody                       []byte
	Wrote                         []byte
	WriteErr                      error
	Wire                          []byte // Request.Write output (C25 leg)
	WireErr                       error
	SeenMethod, SeenURI, SeenHost string
}

// pendingWin: a SETTINGS_INITIAL_WINDOW_SIZE value the client sent, followed by a PING; the PING's
// echo proves that the server has applied it (SPDY has no SETTINGS acknowledgement).
type pendingWin struct {
	val  int64
	ping uint32
}

type seng struct {
	s     *simrt.Sim
	tp    *simrt.Tape
	focus string
	net   *simnet.Net
	cli   *simnet.Conn
	srvc  *simnet.Conn
	sc    *serverConn
	fr    *Framer
	wmu   simsync.Mutex
	outq  []func()

	recv       []sframe
	perStream  map[uint32][]sframe
	readErr    error
	readerDone bool
	srvDone    bool

	// what the client granted the server (download direction)
	initWin   int64
	connWin   int64
	streamWin map[uint32]int64
	owed      map[uint32]int64
	owedConn  int64
	wuPolicy  int
	// what the server advertised (upload direction)
	srvInitWin   int64
	srvConnWin   int64
	srvStreamWin map[uint32]int64
	connCap      int64

	byPath       map[string]*splan
	writeWire    bool
	pings        map[uint32]bool
	sentInitWin  int64
	ackedInitWin int64
	pendWin      []pendingWin
	winChanged   bool
	nextPing     uint32
}

func initCounters() {
	if state.SpdyPanicConn == nil {
		state.SpdyPanicConn = new(metrics.Counter)
		state.SpdyPanicStream = new(metrics.Counter)
	}
}

func spdyPanics() int64 { return state.SpdyPanicConn.Get() + state.SpdyPanicStream.Get() }

func newSeng(s *simrt.Sim, focus string) *seng {
	return &seng{s: s, tp: s.Tape, focus: focus, net: simnet.New(s), perStream: map[uint32][]sframe{}, streamWin: map[uint32]int64{}, owed: map[uint32]int64{},
		srvStreamWin: map[uint32]int64{}, byPath: map[string]*splan{}, initWin: 65536, ackedInitWin: 65536, connWin: 65536, srvInitWin: 65536, srvConnWin: 65536, pings: map[uint32]bool{}}
}

func (e *seng) start(srv *Server) bool {
	e.cli, e.srvc = e.net.Pair("192.0.2.9:40000", "10.0.0.1:443")
	var err error
	e.fr, err = NewFramer(e.cli, e.cli)
	if err != nil {
		e.s.FailK(e.focus+".start", "client-framer", "%v", err)
		return false
	}
	hs := &http.Server{ReadTimeout: 10 * time.Minute, WriteTimeout: 10 * time.Minute}
	simrt.GoNamed("spdyserver", nil, func() {
		if sc := srv.handleConn(hs, e.srvc, http.HandlerFunc(e.serveHTTP)); sc != nil {
			e.sc = sc
			sc.serve()
		}
		e.srvDone = true
	})
	simrt.GoNamed("spdyclient.reader", nil, e.reader)
	simrt.GoNamed("spdyclient.writer", nil, e.writer)
	return true
}

// setInitWin sends SETTINGS_INITIAL_WINDOW_SIZE followed by a barrier PING. What the server may
// assume meanwhile is the largest of the last confirmed value and every value in flight.
func (e *seng) setInitWin(v uint32) {
	e.nextPing += 2
	id := 20001 + e.nextPing
	e.pendWin = append(e.pendWin, pendingWin{int64(v), id})
	e.sentInitWin = int64(v)
	e.recomputeInitWin()
	e.wmu.Lock()
	e.s.Note("op", fmt.Sprintf("client SETTINGS initial_window=%d + PING %d", v, id))
	e.fr.WriteFrame(&SettingsFrame{FlagIdValues: []SettingsFlagIdValue{{0, SettingsInitialWindowSize, v}}})
	e.fr.WriteFrame(&PingFrame{Id: id})
	e.wmu.Unlock()
}

func (e *seng) recomputeInitWin() {
	iw := e.ackedInitWin
	for _, p := range e.pendWin {
		if p.val > iw {
			iw = p.val
		}
	}
	if d := iw - e.initWin; d != 0 {
		for id := range e.streamWin {
			e.streamWin[id] += d
		}
		e.initWin = iw
	}
}

func (e *seng) post(f func()) { e.outq = append(e.outq, f) }

func (e *seng) writer() {
	for {
		simrt.WaitUntil(func() bool { return len(e.outq) > 0 || e.readerDone })
		if len(e.outq) == 0 {
			return
		}
		f := e.outq[0]
		e.outq = e.outq[1:]
		e.wmu.Lock()
		f()
		e.wmu.Unlock()
	}
}

func (e *seng) write(fr Frame) error {
	e.wmu.Lock()
	defer e.wmu.Unlock()
	return e.fr.WriteFrame(fr)
}

func (e *seng) reader() {
	defer func() { e.readerDone = true }()
	for {
		f, err := e.fr.ReadFrame()
		if err != nil {
			e.readErr = err
			e.s.Note("net", fmt.Sprintf("client read ends: %v", err))
			return
		}
		var r sframe
		switch f := f.(type) {
		case *DataFrame:
			r = sframe{Kind: "data", Stream: uint32(f.StreamId), Fin: f.StreamEnded(), Data: append([]byte(nil), f.Data...)}
		case *SynReplyFrame:
			r = sframe{Kind: "syn_reply", Stream: uint32(f.StreamId), Fin: f.StreamEnded(), Hdr: f.Headers}
		case *HeadersFrame:
			r = sframe{Kind: "headers", Stream: uint32(f.StreamId), Hdr: f.Headers, Fin: f.CFHeader.Flags&ControlFlagFin != 0}
		case *RstStreamFrame:
			r = sframe{Kind: "rst", Stream: uint32(f.StreamId), Status: uint32(f.Status)}
		case *GoAwayFrame:
			r = sframe{Kind: "goaway", Status: uint32(f.Status)}
		case *WindowUpdateFrame:
			r = sframe{Kind: "window", Stream: uint32(f.StreamId), Delta: f.DeltaWindowSize}
		case *SettingsFrame:
			r = sframe{Kind: "settings"}
			for _, v := range f.FlagIdValues {
				if v.Id == SettingsInitialWindowSize {
					d := int64(v.Value) - e.srvInitWin
					e.srvInitWin = int64(v.Value)
					for id := range e.srvStreamWin {
						e.srvStreamWin[id] += d
					}
				}
			}
		case *PingFrame:
			r = sframe{Kind: "ping", PingID: f.Id}
			e.pings[f.Id] = true
			for len(e.pendWin) > 0 && e.pendWin[0].ping == f.Id {
				e.ackedInitWin = e.pendWin[0].val
				e.pendWin = e.pendWin[1:]
				e.recomputeInitWin()
			}
		default:
			r = sframe{Kind: fmt.Sprintf("%T", f)}
		}
		r.Seq = e.s.Note("recv", r.String())
		e.recv = append(e.recv, r)
		if r.Kind == "data" || r.Kind == "syn_reply" || r.Kind == "rst" || r.Kind == "headers" {
			e.perStream[r.Stream] = append(e.perStream[r.Stream], r)
		}
		switch r.Kind {
		case "window":
			if r.Stream == 0 {
				e.srvConnWin += int64(r.Delta)
				if e.connCap > 0 && e.srvConnWin > e.connCap {
					e.s.FailK("C40.replenish", "session-window-overcredited", "WINDOW_UPDATE +%d lifts the session window to %d, above the %d it started with", r.Delta, e.srvConnWin, e.connCap)
					return
				}
			} else {
				e.srvStreamWin[r.Stream] += int64(r.Delta)
				if e.connCap > 0 && e.srvStreamWin[r.Stream] > e.srvInitWin {
					e.s.FailK("C40.replenish", "stream-window-overcredited", "WINDOW_UPDATE +%d lifts the window of stream %d to %d, above the initial %d", r.Delta, r.Stream, e.srvStreamWin[r.Stream], e.srvInitWin)
					return
				}
			}
		case "data":
			e.onData(r)
		}
		if e.s.Failed() {
			return
		}
	}
}

func (e *seng) onData(r sframe) {
	n := int64(len(r.Data))
	sw, ok := e.streamWin[r.Stream]
	if !ok {
		e.s.FailK("C40.stream", "data-on-unknown-stream", "DATA on stream %d which the client never opened", r.Stream)
		return
	}
	if n > 0 && n > sw {
		e.s.FailK("C40.outflow", "data-exceeds-stream-window", "DATA frame of %d bytes on stream %d; the stream window the client has granted is %d", n, r.Stream, sw)
		return
	}
	if n > 0 && n > e.connWin {
		e.s.FailK("C40.outflow", "data-exceeds-session-window", "DATA frame of %d bytes on stream %d; the session window the client has granted is %d", n, r.Stream, e.connWin)
		return
	}
	e.s.Checked(1)
	e.streamWin[r.Stream] -= n
	e.connWin -= n
	e.owed[r.Stream] += n
	e.owedConn += n
	if e.wuPolicy == 0 || (e.wuPolicy == 1 && e.owedConn > 20000) {
		e.grant(r.Stream, r.Fin)
	}
}

func (e *seng) grant(id uint32, fin bool) {
	if n := e.owed[id]; n > 0 && !fin {
		e.owed[id] = 0
		e.streamWin[id] += n
		e.post(func() { e.fr.WriteFrame(&WindowUpdateFrame{StreamId: StreamId(id), DeltaWindowSize: uint32(n)}) })
	}
	if n := e.owedConn; n > 0 {
		e.owedConn = 0
		e.connWin += n
		e.post(func() { e.fr.WriteFrame(&WindowUpdateFrame{StreamId: 0, DeltaWindowSize: uint32(n)}) })
	}
}

func (e *seng) over(id uint32) bool {
	fs := e.perStream[id]
	return len(fs) > 0 && (fs[len(fs)-1].Fin || fs[len(fs)-1].Kind == "rst") || e.readerDone || e.goAway() != nil
}

func (e *seng) goAway() *sframe {
	for i := range e.recv {
		if e.recv[i].Kind == "goaway" {
			return &e.recv[i]
		}
	}
	return nil
}

func (e *seng) rstOf(id uint32) *sframe {
	for i := range e.recv {
		if e.recv[i].Kind == "rst" && e.recv[i].Stream == id {
			return &e.recv[i]
		}
	}
	return nil
}

func (e *seng) tail(n int) string {
	fs := e.recv
	if len(fs) > n {
		fs = fs[len(fs)-n:]
	}
	var b []string
	for _, f := range fs {
		b = append(b, f.String())
	}
	return strings.Join(b, " | ")
}

func synHeaders(method, path, host string, extra map[string]string) http.Header {
	h := http.Header{":method": {method}, ":path": {path}, ":version": {"HTTP/1.1"}, ":host": {host}, ":scheme": {"https"}}
	for k, v := range extra {
		h[k] = []string{v}
	}
	return h
}

func (e *seng) syn(id uint32, h http.Header, fin bool) error {
	e.streamWin[id] = e.initWin
	e.srvStreamWin[id] = e.srvInitWin
	f := &SynStreamFrame{StreamId: StreamId(id), Headers: h}
	if fin {
		f.CFHeader.Flags = ControlFlagFin
	}
	e.s.Note("op", fmt.Sprintf("client SYN_STREAM s%d fin=%v %v", id, fin, h))
	return e.write(f)
}

func (e *seng) data(id uint32, b []byte, fin bool) error {
	e.wmu.Lock()
	defer e.wmu.Unlock()
	return e.dataLocked(id, b, fin)
}

func (e *seng) dataLocked(id uint32, b []byte, fin bool) error {
	f := &DataFrame{StreamId: StreamId(id), Data: b}
	if fin {
		f.Flags = DataFlagFin
	}
	e.s.Note("op", fmt.Sprintf("client DATA s%d len=%d fin=%v", id, len(b), fin))
	return e.fr.WriteFrame(f)
}

func patterned(off, n int, salt byte) []byte {
	b := make([]byte, n)
	for i := range b {
		x := off + i
		b[i] = byte(x) ^ byte(x>>8)*31 ^ salt
	}
	return b
}

func (e *seng) serveHTTP(w http.ResponseWriter, r *http.Request) {
	p := e.byPath[r.URL.Path]
	if p == nil {
		for _, c := range e.byPath {
			if strings.HasPrefix(r.RequestURI, c.Path) {
				p = c
			}
		}
	}
	if p == nil {
		e.s.Note("handler", fmt.Sprintf("request for unplanned path %q method %q host %q", r.URL.Path, r.Method, r.Host))
		p = &splan{Path: r.URL.Path}
		e.byPath["?"+r.URL.Path] = p
	}
	p.Started = true
	p.SeenMethod, p.SeenURI, p.SeenHost = r.Method, r.RequestURI, r.Host
	e.s.Note("handler", fmt.Sprintf("start %s %s", r.Method, r.RequestURI))
	if p.Hold != nil {
		simrt.WaitUntil(p.Hold)
	}
	if e.writeWire {
		var body []byte
		if r.Body != nil {
			body, _ = readAll(r.Body)
		}
		p.GotBody = body
		r.Body = &bodyReader{bytes.NewReader(body)}
		r.ContentLength = int64(len(body))
		var buf bytes.Buffer
		r.RequestURI = ""
		p.WireErr = r.Write(&buf)
		p.Wire = buf.Bytes()
		w.WriteHeader(204)
		p.Done = true
		return
	}
	if p.Read == 0 || p.Read == 2 {
		step := p.ReadStep
		if step <= 0 {
			step = 4096
		}
		buf := make([]byte, step)
		for !(p.Read == 2 && len(p.GotBody) >= p.ReadPart) {
			n, err := r.Body.Read(buf)
			p.GotBody = append(p.GotBody, buf[:n]...)
			if err != nil {
				break
			}
			if p.ReadSleepMs > 0 {
				simrt.Sleep(time.Duration(p.ReadSleepMs) * time.Millisecond)
			}
		}
	}
	w.Header().Set("X-Stream", fmt.Sprint(p.ID))
	w.WriteHeader(200)
	for _, n := range p.Writes {
		b := patterned(len(p.Wrote), n, byte(p.ID))
		k, err := w.Write(b)
		p.Wrote = append(p.Wrote, b[:k]...)
		if err != nil {
			p.WriteErr = err
			break
		}
		if fl, ok := w.(http.Flusher); ok && n%2 == 0 {
			fl.Flush()
		}
	}
	p.Done = true
	e.s.Note("handler", fmt.Sprintf("done %s wrote=%d err=%v", r.RequestURI, len(p.Wrote), p.WriteErr))
}

type bodyReader struct{ *bytes.Reader }

func (bodyReader) Close() error { return nil }

func readAll(r io.Reader) ([]byte, error) {
	var out []byte
	buf := make([]byte, 4096)
	for {
		n, err := r.Read(buf)
		out = append(out, buf[:n]...)
		if err != nil {
			if err == io.EOF {
				return out, nil
			}
			return out, err
		}
	}
}

func (e *seng) finish() {
	simrt.Sleep(50 * time.Millisecond)
	e.cli.Close()
	simrt.WaitUntil(func() bool { return e.readerDone })
	simrt.Sleep(2 * time.Second)
}

var _ = href.ErrIncomplete
