//go:build verif
// +build verif

package bfe_spdy

import (
	"bytes"
	"fmt"
	"strings"
	"time"

	http "github.com/bfenetworks/bfe/bfe_http"
	"verif/simrt"
	"verif/simrt/href"
)

func runSpdy(focus string) func(s *simrt.Sim) {
	return func(s *simrt.Sim) {
		initCounters()
		tp := s.Tape
		s.SetSticky([]int{2, 4, 10}[tp.Draw(3, "sched.strategy")])
		s.SetSelectOrder(tp.Draw(3, "selectorder"))
		s.SetSelectYield(tp.Chance(1, 2, "selectyield"))
		s.SetMapOrder(tp.Draw(3, "maporder"))
		e := newSeng(s, focus)
		p0 := spdyPanics()
		if focus == "C25" {
			e.hostile()
		} else {
			switch tp.Draw(3, "mode") {
			case 0:
				e.download()
			case 1:
				e.upload()
			case 2:
				e.stateMachine()
			}
		}
		if s.Failed() {
			return
		}
		if n := spdyPanics() - p0; n > 0 {
			s.FailK(focus+".panic", "server-panic", "%d panic(s) recovered inside the SPDY server on this client frame sequence", n)
		}
	}
}

// ---- download: the server never sends more than the client's windows allow ------------------

func (e *seng) download() {
	s, tp := e.s, e.tp
	faults := simrt.Mode() != "nofault"
	if faults {
		e.net.Seg = []int{0, 3, 8}[tp.Draw(3, "net.seg")]
	}
	if !e.start(&Server{}) {
		return
	}
	iw := []uint32{65536, 65536, 1 << 20, 100000, 2000, 100, 1}[tp.Draw(7, "cli.init_window")]
	e.wuPolicy = tp.Draw(3, "cli.wu_policy")
	// (no stream exists yet: the first value holds from the start)
	e.initWin, e.ackedInitWin, e.sentInitWin = int64(iw), int64(iw), int64(iw)
	e.write(&SettingsFrame{FlagIdValues: []SettingsFlagIdValue{{0, SettingsInitialWindowSize, iw}}})
	maxBody := 150000
	if iw < 65536 {
		maxBody = 64 + 150*int(iw)
	}
	n := tp.Range(1, 3, "n_streams")
	var plans []*splan
	for i := 0; i < n; i++ {
		id := uint32(1 + 2*i)
		p := &splan{ID: id, Path: fmt.Sprintf("/d%d", id), Method: "GET"}
		total := 0
		for k := tp.Draw(4, "n_writes"); k > 0; k-- {
			w := []int{0, 1, 300, 5000, 40000, 70000}[tp.Draw(6, "write_class")]
			if w > 1 {
				w = 1 + tp.Draw(w, "write_n")
			}
			if total+w > maxBody {
				w = maxBody - total
			}
			total += w
			p.Writes = append(p.Writes, w)
		}
		e.byPath[p.Path] = p
		plans = append(plans, p)
		e.syn(id, synHeaders(p.Method, p.Path, "h.example", nil), true)
		if faults && tp.Chance(1, 4, "settings_change") {
			nv := []uint32{0, 10, 5000, 65536, 90000, 1 << 18}[tp.Draw(6, "settings_change_val")]
			e.s.Fault("settings_initial_window_change")
			e.winChanged = true
			e.setInitWin(nv)
		}
	}
	done := func() bool {
		for _, p := range plans {
			if !e.over(p.ID) {
				return false
			}
		}
		return true
	}
	const quiet = 30 * time.Second
	lastN, lastAt, iter := len(e.recv), s.Now(), 0
	for !done() && s.Now()-lastAt < quiet {
		simrt.Sleep(20 * time.Millisecond)
		iter++
		if len(e.recv) != lastN {
			lastN, lastAt = len(e.recv), s.Now()
		}
		for _, p := range plans {
			e.grant(p.ID, e.over(p.ID))
		}
		if iter%8 == 0 {
			// (the server only looks at its write queue again when something happens: a SETTINGS frame
			// that re-opens windows does not by itself resume blocked DATA. That is outside what C40
			// states, so the client nudges with a PING now and then instead of reporting a stall.)
			e.write(&PingFrame{Id: uint32(9001 + 2*iter)})
		}
		if e.sentInitWin < 4096 && iter%4 == 0 {
			e.setInitWin(65536)
		}
	}
	stalled := !done()
	e.finish()
	if s.Failed() {
		return
	}
	if g := e.goAway(); g != nil && g.Status != uint32(GoAwayOK) {
		s.FailK("C40.goaway", "goaway-on-valid-traffic", "the server answered valid traffic with GOAWAY status %d; frames: %s", g.Status, e.tail(8))
		return
	}
	if stalled {
		s.FailK("C40.liveness", "response-stalled", "no frame for %v of simulated time although the client kept granting window; frames: %s", quiet, e.tail(8))
		return
	}
	for _, p := range plans {
		s.Checked(1)
		fs := e.perStream[p.ID]
		if len(fs) == 0 || fs[0].Kind != "syn_reply" {
			s.FailK("C40.shape", "response-does-not-start-with-syn-reply", "stream %d: %v", p.ID, fs)
			return
		}
		var body []byte
		fins := 0
		for i, f := range fs {
			if f.Kind == "rst" {
				s.FailK("C40.shape", "stream-reset-by-server", "stream %d: the server reset a stream whose handler completed normally: %v", p.ID, f)
				return
			}
			if fins > 0 {
				s.FailK("C40.afterend", "frame-after-fin", "stream %d: %v arrived after FIN", p.ID, f)
				return
			}
			if f.Fin {
				fins++
			}
			if i > 0 && f.Kind == "data" {
				body = append(body, f.Data...)
			}
		}
		want := p.Wrote
		if p.Method == "HEAD" {
			want = nil
		}
		if fins != 1 || !bytes.Equal(body, want) {
			s.FailK("C40.body", "response-body-differs", "stream %d: handler wrote %d bytes, DATA frames carry %d, FIN seen %d times", p.ID, len(want), len(body), fins)
			return
		}
		s.Probe("spdy_download_checked")
	}
}

// ---- upload: the server's receive windows -----------------------------------------------------

func (e *seng) upload() {
	s, tp := e.s, e.tp
	faults := simrt.Mode() != "nofault"
	if !e.start(&Server{}) {
		return
	}
	connInit := e.srvConnWin
	violate := faults && tp.Chance(1, 4, "violate")
	if !violate {
		e.connCap = connInit
	}
	n := tp.Range(1, 3, "n_streams")
	type up struct {
		p        *splan
		sent     int
		fin      bool
		violated bool
		before   int
		// the client gives the request up (RST_STREAM CANCEL) once this many body bytes are out; -1 never
		cancelAt  int
		cancelled bool
	}
	var ups []*up
	violationSent, violationImpossible := false, false
	var violationAt time.Duration
	flowErrSeen := func() bool {
		for _, f := range e.recv {
			if f.Kind == "rst" && f.Status == uint32(FlowControlError) || f.Kind == "goaway" {
				return true
			}
		}
		return false
	}
	total := 0
	for i := 0; i < n; i++ {
		id := uint32(1 + 2*i)
		p := &splan{ID: id, Path: fmt.Sprintf("/u%d", id), Method: "POST", Writes: []int{3}}
		size := []int{0, 10, 900, 30000, 70000, 140000}[tp.Draw(6, "body.class")]
		if size > 0 {
			size = 1 + tp.Draw(size, "body.len")
		}
		total += size
		p.ReqBody = patterned(0, size, byte(id))
		p.Read = []int{0, 0, 0, 1, 2}[tp.Draw(5, "h.read")]
		p.ReadStep = []int{100, 4096, 70000}[tp.Draw(3, "h.read_step")]
		if tp.Chance(1, 3, "h.read_sleep") {
			p.ReadSleepMs = 1 + tp.Draw(20, "h.read_sleep_ms")
		}
		if p.Read == 2 {
			p.ReadPart = tp.Draw(size+1, "h.read_part")
		}
		if violate {
			p.Hold = func() bool {
				return violationImpossible || e.readerDone || e.goAway() != nil || violationSent && (flowErrSeen() || s.Now()-violationAt > 2*time.Second)
			}
		}
		e.byPath[p.Path] = p
		u := &up{p: p, cancelAt: -1}
		if faults && !violate && size > 0 && tp.Chance(1, 4, "up.cancel") {
			u.cancelAt = tp.Draw(size, "up.cancel_at")
		}
		ups = append(ups, u)
	}
	if faults && total <= 40000 {
		seg := []int{0, 3, 8}[tp.Draw(3, "net.seg")]
		e.cli.Seg, e.srvc.Seg = seg, seg
	}
	var tasks []*simrt.Task
	for i, u := range ups {
		u := u
		e.syn(u.p.ID, synHeaders("POST", u.p.Path, "h.example", map[string]string{"content-type": "application/x-verif"}), false)
		violator := violate && i == 0
		tasks = append(tasks, simrt.GoNamed("spdyclient.upload", int(u.p.ID), func() {
			p := u.p
			id := p.ID
			if violator {
				by := int64(1 + tp.Draw(8, "violate.by"))
				for {
					e.wmu.Lock()
					w := e.srvStreamWin[id]
					if e.srvConnWin < w {
						w = e.srvConnWin
					}
					remaining := int64(len(p.ReqBody) - u.sent)
					over := w + by
					if over <= 16384 && over <= remaining {
						s.Fault("window_violation")
						u.violated, u.before = true, u.sent
						e.srvStreamWin[id] -= over
						e.srvConnWin -= over
						e.dataLocked(id, p.ReqBody[u.sent:u.sent+int(over)], false)
						e.wmu.Unlock()
						violationSent, violationAt = true, s.Now()
						return
					}
					chunk := int64(16384)
					if chunk > w {
						chunk = w
					}
					if chunk <= 0 || remaining-chunk < 1 {
						e.wmu.Unlock()
						break
					}
					e.srvStreamWin[id] -= chunk
					e.srvConnWin -= chunk
					err := e.dataLocked(id, p.ReqBody[u.sent:u.sent+int(chunk)], false)
					e.wmu.Unlock()
					if err != nil {
						return
					}
					u.sent += int(chunk)
				}
				violationImpossible = true
			}
			for u.sent < len(p.ReqBody) {
				if u.cancelAt >= 0 && u.sent >= u.cancelAt {
					// the client loses interest in the middle of its upload
					s.Fault("client_rst_mid_upload")
					u.cancelled = true
					s.Note("op", fmt.Sprintf("client RST_STREAM s%d (CANCEL)", id))
					e.write(&RstStreamFrame{StreamId: StreamId(id), Status: Cancel})
					return
				}
				chunk := []int{16384, 16384, 1000, 100}[tp.Draw(4, "up.chunk")]
				if chunk > len(p.ReqBody)-u.sent {
					chunk = len(p.ReqBody) - u.sent
				}
				need := int64(chunk)
				ok := func() bool { return e.srvStreamWin[id] >= need && e.srvConnWin >= need }
				for {
					if !ok() {
						s.Probe("spdy_upload_waited_for_window")
						simrt.WaitUntil(func() bool { return ok() || e.over(id) })
					}
					if e.over(id) {
						return
					}
					e.wmu.Lock()
					if ok() {
						break
					}
					e.wmu.Unlock()
				}
				e.srvStreamWin[id] -= need
				e.srvConnWin -= need
				fin := u.sent+chunk == len(p.ReqBody)
				err := e.dataLocked(id, p.ReqBody[u.sent:u.sent+chunk], fin)
				e.wmu.Unlock()
				if err != nil {
					return
				}
				u.sent += chunk
				u.fin = u.fin || fin
				if tp.Chance(1, 6, "up.pause") {
					simrt.Sleep(time.Duration(1+tp.Draw(10, "up.pause_ms")) * time.Millisecond)
				}
			}
			if !u.fin {
				e.data(id, nil, true)
				u.fin = true
			}
		}))
	}
	simrt.Join(tasks...)
	progress := func() int {
		k := len(e.recv)
		for _, u := range ups {
			k += len(u.p.GotBody)
		}
		return k
	}
	last, lastAt := progress(), s.Now()
	for s.Now()-lastAt < 20*time.Second {
		all := true
		for _, u := range ups {
			if !u.cancelled && !e.over(u.p.ID) {
				all = false
			}
		}
		if all {
			break
		}
		simrt.Sleep(50 * time.Millisecond)
		if k := progress(); k != last {
			last, lastAt = k, s.Now()
		}
	}
	simrt.Sleep(200 * time.Millisecond)
	connEnd := e.srvConnWin
	e.finish()
	if s.Failed() {
		return
	}
	anyViol := false
	for _, u := range ups {
		s.Checked(1)
		p := u.p
		if u.violated {
			anyViol = true
			if !flowErrSeen() {
				s.FailK("C40.enforce", "excess-data-not-refused", "stream %d: the client sent DATA beyond the advertised window and got no FLOW_CONTROL_ERROR; frames: %s", p.ID, e.tail(8))
				return
			}
			if r := e.rstOf(p.ID); r != nil && len(p.GotBody) > u.before {
				s.FailK("C40.enforce", "excess-data-reached-handler", "stream %d: handler received %d bytes, only %d were sent within the window", p.ID, len(p.GotBody), u.before)
				return
			}
			s.Probe("spdy_inflow_violation_refused")
			continue
		}
		if violate {
			continue
		}
		if r := e.rstOf(p.ID); r != nil && r.Status == uint32(FlowControlError) {
			s.FailK("C40.spurious", "flow-control-error-for-respectful-client", "stream %d: the client stayed within every advertised window; frames: %s", p.ID, e.tail(8))
			return
		}
		if !bytes.HasPrefix(p.ReqBody, p.GotBody) {
			s.FailK("C40.body", "handler-body-altered", "stream %d: handler read %d bytes that are not a prefix of what was sent", p.ID, len(p.GotBody))
			return
		}
		if u.cancelled {
			s.Probe("spdy_upload_cancelled_by_client")
			continue
		}
		if p.Read == 0 {
			if !u.fin || len(p.GotBody) != len(p.ReqBody) {
				s.FailK("C40.liveness", "upload-stalled", "stream %d: handler reads the whole body, the client respects the windows, yet only %d of %d bytes got through (sent %d); server windows as seen by the client: stream %d, session %d", p.ID, len(p.GotBody), len(p.ReqBody), u.sent, e.srvStreamWin[p.ID], e.srvConnWin)
				return
			}
			s.Probe("spdy_upload_complete")
		}
	}
	if !anyViol && !violate && e.goAway() == nil {
		if connEnd != connInit {
			s.FailK("C40.replenish", "session-window-not-restored", "all streams are closed but the session window stands at %d instead of %d: %d bytes were never given back", connEnd, connInit, connInit-connEnd)
			return
		}
		s.Probe("spdy_session_window_restored")
	}
}

// ---- stream ids and closed streams ------------------------------------------------------------

func (e *seng) stateMachine() {
	s, tp := e.s, e.tp
	if !e.start(&Server{MaxConcurrentStreams: uint32([]int{2, 3, 100}[tp.Draw(3, "srv.max_streams")])}) {
		return
	}
	released := map[uint32]bool{}
	next := uint32(1)
	open := func(fin bool) *splan {
		id := next
		next += 2
		p := &splan{ID: id, Path: fmt.Sprintf("/t%d", id), Method: "POST", Writes: []int{5}}
		if fin {
			p.Method = "GET"
		}
		p.Hold = func() bool { return released[id] || e.readerDone }
		e.byPath[p.Path] = p
		e.syn(id, synHeaders(p.Method, p.Path, "h.example", nil), fin)
		return p
	}
	ping := func() bool {
		id := uint32(1 + 2*len(e.pings) + 1000)
		e.write(&PingFrame{Id: id})
		simrt.WaitUntil(func() bool { return e.pings[id] || e.readerDone })
		return e.pings[id]
	}
	// a short legal prefix
	var live []*splan
	for i := tp.Draw(3, "prefix"); i > 0; i-- {
		if len(live) >= 2 {
			break
		}
		live = append(live, open(tp.Chance(1, 2, "open.fin")))
	}
	if !ping() {
		s.FailK("C40.legal", "connection-lost-on-legal-traffic", "legal frames ended the connection: %v", e.readErr)
		return
	}
	mark := len(e.recv)
	kind := tp.Draw(7, "illegal.kind")
	name := ""
	var target uint32
	connErr := false
	bad := &splan{Path: fmt.Sprintf("/bad%d", next)}
	e.byPath[bad.Path] = bad
	switch kind {
	case 0:
		name, connErr, target = "SYN_STREAM with an even stream id", true, next+1
		e.syn(target, synHeaders("GET", bad.Path, "h.example", nil), true)
	case 1:
		name, connErr = "SYN_STREAM with a stream id below one already used", true
		skipped := next
		next += 2
		p := open(true)
		released[p.ID] = true
		ping()
		mark = len(e.recv)
		target = skipped
		e.syn(target, synHeaders("GET", bad.Path, "h.example", nil), true)
	case 2:
		name, target = "DATA on a stream that was never opened", next+4
		e.data(target, []byte("x"), false)
	case 3:
		name = "DATA after the client's FIN (half-closed stream)"
		p := open(true)
		ping()
		mark = len(e.recv)
		target = p.ID
		e.data(target, []byte("late"), false)
	case 4:
		name = "DATA on a closed stream"
		p := open(true)
		released[p.ID] = true
		simrt.WaitUntil(func() bool { return e.over(p.ID) })
		ping()
		mark = len(e.recv)
		target = p.ID
		e.data(target, []byte("late"), true)
	case 6:
		// a SYN_STREAM the server refuses still uses up its stream id
		name, connErr = "SYN_STREAM re-using (or going below) the id of a refused SYN_STREAM", false
		refusedID := next
		next += 2
		h := synHeaders("GET", fmt.Sprintf("/refused%d", refusedID), "h.example", nil)
		if tp.Chance(1, 2, "refused.how") {
			h[":scheme"] = []string{"ftp"}
		} else {
			delete(h, ":path")
		}
		e.syn(refusedID, h, true)
		ping()
		mark = len(e.recv)
		target = refusedID
		if tp.Chance(1, 2, "refused.lower") && refusedID >= 3 {
			next += 2
			p := open(true) // a higher id in between, then back to the refused one
			released[p.ID] = true
			ping()
			mark = len(e.recv)
		}
		delete(e.perStream, target)
		e.streamWin[target] = e.initWin
		e.s.Note("op", fmt.Sprintf("client SYN_STREAM s%d (id of a refused stream) again", target))
		e.write(&SynStreamFrame{StreamId: StreamId(target), Headers: synHeaders("GET", bad.Path, "h.example", nil), CFHeader: ControlFrameHeader{Flags: ControlFlagFin}})
	case 5:
		name = "SYN_STREAM re-using the id of an open stream"
		p := open(false)
		ping()
		mark = len(e.recv)
		target = p.ID
		bad.Path = p.Path + "-again"
		e.byPath[bad.Path] = bad
		e.streamWin[target] = e.initWin
		e.s.Note("op", fmt.Sprintf("client SYN_STREAM s%d again", target))
		e.write(&SynStreamFrame{StreamId: StreamId(target), Headers: synHeaders("GET", bad.Path, "h.example", nil), CFHeader: ControlFrameHeader{Flags: ControlFlagFin}})
	}
	synced := ping()
	simrt.Sleep(100 * time.Millisecond)
	s.Checked(1)
	after := e.recv[mark:]
	refusedStream, refusedConn := false, e.readerDone
	for _, f := range after {
		if f.Kind == "rst" && f.Stream == target {
			refusedStream = true
		}
		if f.Kind == "goaway" && f.Status != uint32(GoAwayOK) {
			refusedConn = true
		}
	}
	what := fmt.Sprintf("%s: frames afterwards: %v; connection closed=%v", name, after, e.readerDone)
	if bad.Started {
		s.FailK("C40.refuse", "forbidden-request-reached-handler:"+fmt.Sprint(kind), "%s", what)
		return
	}
	if connErr && !refusedConn {
		s.FailK("C40.refuse", "invalid-stream-id-not-refused:"+fmt.Sprint(kind), "%s", what)
		return
	}
	if !refusedStream && !refusedConn {
		s.FailK("C40.refuse", "forbidden-frame-not-refused:"+fmt.Sprint(kind), "%s", what)
		return
	}
	if refusedStream && !refusedConn {
		if !synced {
			s.FailK("C40.continue", "connection-unusable-after-stream-error", "%s", what)
			return
		}
		for id := range e.streamWin {
			released[id] = true
		}
		for _, lp := range live {
			if lp.Method == "POST" {
				e.data(lp.ID, nil, true) // end the open request bodies so that the streams can close
			}
		}
		simrt.WaitUntil(func() bool {
			for _, lp := range live {
				if !e.over(lp.ID) {
					return false
				}
			}
			return true
		})
		p := open(true)
		released[p.ID] = true
		simrt.WaitUntil(func() bool { return e.over(p.ID) })
		fs := e.perStream[p.ID]
		if len(fs) == 0 || fs[0].Kind != "syn_reply" {
			s.FailK("C40.continue", "valid-request-after-stream-error-failed", "after %s a valid request got %v", name, fs)
			return
		}
		s.Probe("spdy_stream_error_then_continue")
	}
	for id := range e.streamWin {
		released[id] = true
	}
	s.Probe("spdy_illegal_checked")
	e.finish()
}

// ---- C25, SPDY leg ----------------------------------------------------------------------------

var hostileValues = []string{"a\r\nX-Injected: 1", "a\nb", "a\rb", "tab\tinside", "high\xffbyte", "del\x7f", "ctl\x01", "  padded  ", "a,b;c=d"}
var hostileNames = []string{"x bad", "x:colon", "x\r\nevil", "x(paren)", "x-ok-name"}

func (e *seng) hostile() {
	s, tp := e.s, e.tp
	e.writeWire = true
	if !e.start(&Server{}) {
		return
	}
	type hreq struct {
		p      *splan
		method string
		path   string
		host   string
		extra  map[string]string
		what   string
	}
	var list []*hreq
	n := tp.Range(1, 3, "n_streams")
	for i := 0; i < n; i++ {
		id := uint32(1 + 2*i)
		q := &hreq{method: []string{"GET", "POST", "DELETE"}[tp.Draw(3, "method")], host: "h.example", extra: map[string]string{"accept": "*/*", "x-verif-id": fmt.Sprint(id)}}
		q.path = fmt.Sprintf("/c%d/x?q=%d", id, tp.Draw(9, "q"))
		q.p = &splan{ID: id, Path: fmt.Sprintf("/c%d", id)}
		if q.method == "POST" {
			q.p.ReqBody = patterned(0, tp.Draw(1500, "body"), byte(id))
		}
		switch tp.Draw(6, "hostile.where") {
		case 0:
			v := hostileValues[tp.Draw(len(hostileValues), "hostile.value")]
			q.extra["x-probe"] = v
			q.what = fmt.Sprintf("value %q", v)
		case 1:
			nm := hostileNames[tp.Draw(len(hostileNames), "hostile.name")]
			q.extra[nm] = "1"
			q.what = fmt.Sprintf("name %q", nm)
		case 2:
			q.method = []string{"GET /admin HTTP/1.1\r\nHost: evil\r\n\r\nGET", "G ET", "GET\t/admin", "get"}[tp.Draw(4, "hostile.method")]
			q.what = fmt.Sprintf(":method %q", q.method)
		case 3:
			q.host = []string{"h.example\r\nX-Injected: 1", "h example", "h.example:80"}[tp.Draw(3, "hostile.host")]
			q.what = fmt.Sprintf(":host %q", q.host)
		case 4:
			q.path = fmt.Sprintf("/c%d", id) + []string{"/a b", "/a\r\nX-Injected: 1", "/%0d%0aX: 1", "/é"}[tp.Draw(4, "hostile.path")]
			q.what = fmt.Sprintf(":path %q", q.path)
		}
		if q.what != "" {
			s.Probe("c25_hostile_request")
		}
		e.byPath[q.p.Path] = q.p
		list = append(list, q)
		e.syn(id, synHeaders(q.method, q.path, q.host, q.extra), len(q.p.ReqBody) == 0)
		if len(q.p.ReqBody) > 0 {
			e.data(id, q.p.ReqBody, true)
		}
	}
	t0 := s.Now()
	for s.Now()-t0 < 10*time.Second {
		all := true
		for _, q := range list {
			if !e.over(q.p.ID) {
				all = false
			}
		}
		if all {
			break
		}
		simrt.Sleep(20 * time.Millisecond)
	}
	e.finish()
	if s.Failed() {
		return
	}
	for _, q := range list {
		p := q.p
		s.Checked(1)
		if !p.Started || p.WireErr != nil {
			continue // refused: nothing complete is written to a backend
		}
		m, used, err := href.ParseRequest(p.Wire)
		if err != nil {
			s.FailK("C25.wellformed", "backend-bytes-malformed", "SPDY stream %d (%s): Request.Write produced bytes a strict parser rejects (%v): %q", p.ID, q.what, err, clip(p.Wire, 300))
			return
		}
		if used != len(p.Wire) {
			s.FailK("C25.injected", "second-message-in-backend-bytes", "SPDY stream %d (%s): %d bytes follow the request in what is written to the backend: %q", p.ID, q.what, len(p.Wire)-used, clip(p.Wire[used:], 200))
			return
		}
		if m.Method != q.method || (m.Target != q.path && unescape(m.Target) != unescape(q.path)) {
			s.FailK("C25.line", "request-line-altered", "SPDY stream %d (%s): client sent %q %q, the backend would receive %q %q", p.ID, q.what, q.method, q.path, m.Method, m.Target)
			return
		}
		if !bytes.Equal(m.Body, p.ReqBody) {
			s.FailK("C25.body", "body-altered", "SPDY stream %d: client body %d bytes, backend body %d bytes", p.ID, len(p.ReqBody), len(m.Body))
			return
		}
		for _, f := range m.Fields {
			k := strings.ToLower(f.Name)
			if k == "host" {
				if f.Value != q.host && !(strings.HasPrefix(q.host, f.Value) && strings.IndexAny(q.host, "\r\n ") == len(f.Value)) {
					s.FailK("C25.fields", "host-altered", "SPDY stream %d (%s): :host %q became Host %q", p.ID, q.what, q.host, f.Value)
					return
				}
				continue
			}
			if k == "content-length" || k == "transfer-encoding" || k == "user-agent" {
				continue
			}
			// (a value whose CR / LF were replaced by spaces is sanitised, not an injection)
			if v, ok := q.extra[k]; !ok || (strings.Trim(v, " \t") != f.Value && strings.NewReplacer("\r", " ", "\n", " ").Replace(strings.Trim(v, " \t")) != f.Value) {
				s.FailK("C25.fields", "field-not-sent-by-client", "SPDY stream %d (%s): the backend would receive %s: %q which the client did not send", p.ID, q.what, f.Name, clip([]byte(f.Value), 80))
				return
			}
		}
		s.Probe("c25_spdy_forwarded_checked")
	}
}

func clip(b []byte, n int) []byte {
	if len(b) > n {
		return b[:n]
	}
	return b
}

func unescape(t string) string {
	var b []byte
	for i := 0; i < len(t); i++ {
		if t[i] == '%' && i+2 < len(t) {
			var v byte
			ok := true
			for _, c := range []byte{t[i+1], t[i+2]} {
				switch {
				case c >= '0' && c <= '9':
					v = v<<4 | (c - '0')
				case c >= 'a' && c <= 'f':
					v = v<<4 | (c - 'a' + 10)
				case c >= 'A' && c <= 'F':
					v = v<<4 | (c - 'A' + 10)
				default:
					ok = false
				}
			}
			if ok {
				b = append(b, v)
				i += 2
				continue
			}
		}
		b = append(b, t[i])
	}
	return string(b)
}

var _ = http.StatusOK
