//go:build verif
// +build verif

package bfe_stream

import (
	"bytes"
	"fmt"
	"io"
	"net"
	"testing"
	"time"

	"github.com/baidu/go-lib/web-monitor/metrics"

	"verif/simrt"
	"verif/simrt/simnet"
)

// C47 (TLS-offload stream leg): the real TLSProxyHandler copy loops between a client-side connection
// and a backend connection on the simulated network. The client side behaves like a TLS connection
// in one respect that matters to a copy loop: its Read may hand over the last bytes together with
// io.EOF (close_notify right behind the data).

func TestSim(t *testing.T) {
	simrt.Main(t, map[string]simrt.Prop{
		"C47stream": {Run: runC47stream, Opt: simrt.Options{MaxSteps: 300000}},
	})
}

// eofWithData wraps a connection: when the peer has closed and everything is buffered, the final
// Read returns the data and io.EOF in one call (as bfe_tls.Conn.Read does).
type eofWithData struct {
	*simnet.Conn
	s        *simrt.Sim
	pending  []byte
	eof      bool
	coalesce bool
}

func (c *eofWithData) Read(p []byte) (int, error) {
	if !c.coalesce {
		return c.Conn.Read(p)
	}
	if len(c.pending) == 0 && !c.eof {
		buf := make([]byte, len(p))
		n, err := c.Conn.Read(buf)
		c.pending = buf[:n]
		if err == io.EOF {
			c.eof = true
		} else if err != nil {
			return 0, err
		}
		if !c.eof && n > 0 {
			// look ahead: is the end right behind these bytes?
			c.Conn.SetReadDeadline(time.Now().Add(time.Millisecond))
			one := make([]byte, len(p))
			m, err2 := c.Conn.Read(one)
			c.Conn.SetReadDeadline(time.Time{})
			c.pending = append(c.pending, one[:m]...)
			if err2 == io.EOF {
				c.eof = true
			}
		}
	}
	n := copy(p, c.pending)
	c.pending = c.pending[n:]
	if len(c.pending) == 0 && c.eof {
		if n > 0 {
			c.s.Fault("data_with_eof")
		}
		return n, io.EOF
	}
	return n, nil
}

var _ net.Conn = (*eofWithData)(nil)

func pat(n int, salt byte) []byte {
	b := make([]byte, n)
	for i := range b {
		b[i] = byte(i) ^ byte(i>>8)*29 ^ salt
	}
	return b
}

func runC47stream(s *simrt.Sim) {
	if state.StreamBytesRecv == nil {
		state.StreamBytesRecv = new(metrics.Counter)
		state.StreamBytesSent = new(metrics.Counter)
	}
	tp := s.Tape
	s.SetSticky([]int{2, 4, 10}[tp.Draw(3, "sched.strategy")])
	net := simnet.New(s)
	if simrt.Mode() != "nofault" {
		net.Seg = []int{0, 3, 8}[tp.Draw(3, "net.seg")]
	}
	cli, cside := net.Pair("192.0.2.5:5000", "10.0.0.1:443")
	bside, backend := net.Pair("10.0.0.1:6000", "10.3.0.9:8000")
	c2b := pat([]int{0, 1, 57, 5000, 90000}[tp.Draw(5, "c2b.class")], 1)
	b2c := pat([]int{0, 1, 57, 5000, 90000}[tp.Draw(5, "b2c.class")], 2)
	wrapped := &eofWithData{Conn: cside, s: s, coalesce: tp.Chance(1, 2, "coalesce_eof")}
	errCh := make(chan error, 2)
	simrt.GoNamed("stream.proxy", nil, func() {
		TLSProxyHandler(&Server{}, wrapped, bside, errCh)
		// what serverConn.serve does: first finished copy -> shut both down shortly after
		<-errCh
		simrt.Sleep(250 * time.Millisecond)
		cside.Close()
		bside.Close()
	})
	var backendGot, clientGot []byte
	bt := simrt.GoNamed("stream.backend", nil, func() {
		defer backend.Close()
		wr := simrt.GoNamed("stream.backend.writer", nil, func() {
			rest := b2c
			for len(rest) > 0 {
				k := 1 + tp.Draw(minInt(len(rest), 9000), "b2c.chunk")
				if _, err := backend.Write(rest[:k]); err != nil {
					return
				}
				rest = rest[k:]
			}
		})
		buf := make([]byte, 4096)
		backend.SetReadDeadline(time.Now().Add(time.Minute))
		for {
			n, err := backend.Read(buf)
			backendGot = append(backendGot, buf[:n]...)
			if err != nil {
				break
			}
		}
		simrt.Join(wr)
	})
	ct := simrt.GoNamed("stream.client", nil, func() {
		defer cli.Close()
		rd := simrt.GoNamed("stream.client.reader", nil, func() {
			buf := make([]byte, 4096)
			cli.SetReadDeadline(time.Now().Add(time.Minute))
			for len(clientGot) < len(b2c) {
				n, err := cli.Read(buf)
				clientGot = append(clientGot, buf[:n]...)
				if err != nil {
					return
				}
			}
		})
		rest := c2b
		for len(rest) > 0 {
			k := 1 + tp.Draw(minInt(len(rest), 9000), "c2b.chunk")
			if _, err := cli.Write(rest[:k]); err != nil {
				return
			}
			rest = rest[k:]
		}
		// the client has what it wanted and says goodbye right behind its last bytes
		simrt.Join(rd)
		cli.CloseWrite()
	})
	simrt.Join(ct, bt)
	s.Note("op", fmt.Sprintf("client->backend %d bytes, backend->client %d bytes, data+EOF in one read: %v", len(c2b), len(b2c), wrapped.coalesce))
	s.Checked(1)
	if !bytes.Equal(backendGot, c2b) {
		s.FailK("C47.c2b", "client-bytes-altered", "client sent %d bytes and closed, the backend received %d (first difference at %d); last read delivered data together with EOF: %v", len(c2b), len(backendGot), diffAt(backendGot, c2b), wrapped.coalesce)
		return
	}
	if !bytes.Equal(clientGot, b2c) {
		s.FailK("C47.b2c", "backend-bytes-altered", "backend sent %d bytes, the client received %d (first difference at %d)", len(b2c), len(clientGot), diffAt(clientGot, b2c))
		return
	}
	s.Probe("stream_tunnel_checked")
}

func minInt(a, b int) int {
	if a < b {
		return a
	}
	return b
}

func diffAt(a, b []byte) int {
	n := minInt(len(a), len(b))
	for i := 0; i < n; i++ {
		if a[i] != b[i] {
			return i
		}
	}
	return n
}
