//go:build verif
// +build verif

package bfe_tls

import (
	"bytes"
	"fmt"
	"io"
	"time"

	"verif/simrt"
	"verif/simrt/simnet"
)

// C42: a record-aware man-in-the-middle between bfe's own TLS client (every suite and version bfe
// speaks) and the real bfe_tls server. After the handshake the client's application-data records
// are modified, truncated, dropped, replayed, reordered or forged; the server application must
// receive only a prefix of what the client sent and must see an error, not a clean end of stream.

type trec struct {
	hdr  [5]byte
	body []byte
}

func readTLSRecord(r io.Reader) (*trec, error) {
	var t trec
	if _, err := io.ReadFull(r, t.hdr[:]); err != nil {
		return nil, err
	}
	t.body = make([]byte, int(t.hdr[3])<<8|int(t.hdr[4]))
	if _, err := io.ReadFull(r, t.body); err != nil {
		return nil, err
	}
	return &t, nil
}

func (t *trec) bytes() []byte { return append(append([]byte(nil), t.hdr[:]...), t.body...) }

var c42suites = []struct {
	id    uint16
	ec    bool
	tls12 bool
	name  string
}{
	{TLS_ECDHE_RSA_WITH_CHACHA20_POLY1305_SHA256, false, true, "ECDHE-RSA-CHACHA20"},
	{TLS_ECDHE_ECDSA_WITH_CHACHA20_POLY1305_SHA256, true, true, "ECDHE-ECDSA-CHACHA20"},
	{TLS_ECDHE_RSA_WITH_AES_128_GCM_SHA256, false, true, "ECDHE-RSA-AES128-GCM"},
	{TLS_ECDHE_ECDSA_WITH_AES_128_GCM_SHA256, true, true, "ECDHE-ECDSA-AES128-GCM"},
	{TLS_ECDHE_RSA_WITH_RC4_128_SHA, false, false, "ECDHE-RSA-RC4"},
	{TLS_ECDHE_ECDSA_WITH_RC4_128_SHA, true, false, "ECDHE-ECDSA-RC4"},
	{TLS_ECDHE_RSA_WITH_AES_128_CBC_SHA, false, false, "ECDHE-RSA-AES128-CBC"},
	{TLS_ECDHE_ECDSA_WITH_AES_128_CBC_SHA, true, false, "ECDHE-ECDSA-AES128-CBC"},
	{TLS_ECDHE_RSA_WITH_AES_256_CBC_SHA, false, false, "ECDHE-RSA-AES256-CBC"},
	{TLS_ECDHE_ECDSA_WITH_AES_256_CBC_SHA, true, false, "ECDHE-ECDSA-AES256-CBC"},
	{TLS_RSA_WITH_RC4_128_SHA, false, false, "RSA-RC4"},
	{TLS_RSA_WITH_AES_128_CBC_SHA, false, false, "RSA-AES128-CBC"},
	{TLS_RSA_WITH_AES_256_CBC_SHA, false, false, "RSA-AES256-CBC"},
	{TLS_ECDHE_RSA_WITH_3DES_EDE_CBC_SHA, false, false, "ECDHE-RSA-3DES"},
	{TLS_RSA_WITH_3DES_EDE_CBC_SHA, false, false, "RSA-3DES"},
	{TLS_RSA_WITH_SM4_SM3, false, false, "RSA-SM4-SM3"},
}

func runC42(s *simrt.Sim) {
	tp := s.Tape
	s.SetSticky([]int{2, 4, 10}[tp.Draw(3, "sched.strategy")])
	net := simnet.New(s)
	if simrt.Mode() != "nofault" {
		net.Seg = []int{0, 3, 8}[tp.Draw(3, "net.seg")]
	}
	su := c42suites[tp.Draw(len(c42suites), "suite")]
	// (bfe's client does not speak SSL 3.0, so the oldest version exercised is TLS 1.0)
	vers := []uint16{VersionTLS12, VersionTLS11, VersionTLS10}[tp.Draw(3, "version")]
	if su.tls12 {
		vers = VersionTLS12
	}
	cert := vRSACert
	if su.ec {
		cert = vECCert
	}
	scfg := &Config{Certificates: []Certificate{cert}, CipherSuites: []uint16{su.id}, MinVersion: VersionSSL30, MaxVersion: VersionTLS12, SessionTicketsDisabled: true,
		ServerRule: fixedRule{&Rule{Grade: GradeC, Chacha20: true, NextProtos: fixedProtos(nil)}}}
	ccfg := &Config{InsecureSkipVerify: true, CipherSuites: []uint16{su.id}, MinVersion: vers, MaxVersion: vers, ServerName: "h.example"}
	// the client's plaintext, one record per write
	nrec := tp.Range(1, 6, "n_records")
	var chunks [][]byte
	var sent []byte
	for i := 0; i < nrec; i++ {
		c := patterned([]int{1, 40, 700, 5000}[tp.Draw(4, "chunk.class")], byte(i+1))
		chunks = append(chunks, c)
		sent = append(sent, c...)
	}
	op := tp.Draw(8, "tamper.op")
	ca, ma := net.Pair("192.0.2.1:5000", "10.9.9.9:443") // client <-> mitm
	mb, sb := net.Pair("10.9.9.9:6000", "10.0.0.1:443")  // mitm <-> server
	var got []byte
	var sErr, hsErr, cErr error
	applied := ""
	srvTask := simrt.GoNamed("tls.server", nil, func() {
		defer sb.Close()
		sb.SetDeadline(time.Now().Add(time.Minute))
		srv := Server(sb, scfg)
		if hsErr = srv.Handshake(); hsErr != nil {
			return
		}
		buf := make([]byte, 4096)
		for {
			n, err := srv.Read(buf)
			got = append(got, buf[:n]...)
			if err != nil {
				sErr = err
				return
			}
		}
	})
	cliTask := simrt.GoNamed("tls.client", nil, func() {
		defer ca.Close()
		ca.SetDeadline(time.Now().Add(time.Minute))
		cli := Client(ca, ccfg)
		if cErr = cli.Handshake(); cErr != nil {
			return
		}
		for _, c := range chunks {
			if _, err := cli.Write(c); err != nil {
				cErr = err
				return
			}
		}
		cli.Close() // close_notify
	})
	back := simrt.GoNamed("mitm.s2c", nil, func() {
		buf := make([]byte, 4096)
		for {
			n, err := mb.Read(buf)
			if n > 0 {
				ma.Write(buf[:n])
			}
			if err != nil {
				ma.CloseWrite()
				return
			}
		}
	})
	fwd := simrt.GoNamed("mitm.c2s", nil, func() {
		defer mb.CloseWrite()
		var app []*trec
		inApp := false
		for {
			r, err := readTLSRecord(ma)
			if err != nil {
				break
			}
			if r.hdr[0] == 23 {
				inApp = true
			}
			if !inApp {
				mb.Write(r.bytes())
				continue
			}
			app = append(app, r) // application data and the closing alert
		}
		// app = data records ... + close_notify alert
		ndata := 0
		for _, r := range app {
			if r.hdr[0] == 23 {
				ndata++
			}
		}
		if ndata == 0 {
			for _, r := range app {
				mb.Write(r.bytes())
			}
			return
		}
		k := tp.Draw(ndata, "tamper.at")
		out := app
		switch op {
		case 0:
			applied = ""
		case 1:
			r := app[k]
			i := tp.Draw(len(r.body), "tamper.byte")
			r.body[i] ^= 1 << uint(tp.Draw(8, "tamper.bit"))
			applied = fmt.Sprintf("bit flipped in byte %d of data record %d", i, k)
		case 2:
			// the stream ends in the middle of record k
			cut := 1 + tp.Draw(len(app[k].body)+3, "tamper.cut")
			out = app[:k]
			for _, r := range out {
				mb.Write(r.bytes())
			}
			mb.Write(app[k].bytes()[:cut])
			applied = fmt.Sprintf("stream cut %d bytes into data record %d", cut, k)
			s.Fault("tamper_truncate_mid_record")
			return
		case 3:
			// the stream ends at a record boundary: record k and everything after it (the close_notify too) is gone
			out = app[:k]
			applied = fmt.Sprintf("stream cut before data record %d (no close_notify)", k)
		case 4:
			out = append(append([]*trec{}, app[:k]...), app[k+1:]...)
			applied = fmt.Sprintf("data record %d dropped", k)
		case 5:
			out = append(append(append([]*trec{}, app[:k+1]...), app[k]), app[k+1:]...)
			applied = fmt.Sprintf("data record %d replayed", k)
		case 6:
			if k+1 < ndata {
				out = append([]*trec{}, app...)
				out[k], out[k+1] = out[k+1], out[k]
				applied = fmt.Sprintf("data records %d and %d swapped", k, k+1)
			}
		case 7:
			forged := &trec{hdr: app[k].hdr, body: patterned(len(app[k].body), 0x5a)}
			n := []int{4, 16, 24, 60}[tp.Draw(4, "tamper.forged_len")]
			if tp.Chance(1, 2, "tamper.forged_short") {
				forged.body = patterned(n, 0x5a)
				forged.hdr[3], forged.hdr[4] = byte(n>>8), byte(n)
			}
			out = append(append(append([]*trec{}, app[:k]...), forged), app[k:]...)
			applied = fmt.Sprintf("forged %d-byte record injected before data record %d", len(forged.body), k)
		}
		for _, r := range out {
			mb.Write(r.bytes())
		}
	})
	simrt.Join(srvTask, cliTask, back, fwd)
	s.Note("op", fmt.Sprintf("suite %s version %x, %d records, tamper: %s", su.name, vers, nrec, applied))
	s.Checked(1)
	if hsErr != nil || cErr != nil {
		{
			s.FailK("C42.handshake", "handshake-failed:"+su.name, "suite %s at version %x between bfe's client and server: server %v, client %v", su.name, vers, hsErr, cErr)
		}
		return
	}
	if applied != "" {
		s.Fault("record_tampering")
	}
	if !bytes.HasPrefix(sent, got) {
		s.FailK("C42.prefix", "application-received-bytes-not-sent", "suite %s version %x, %s: the server application read %d bytes that are not a prefix of the %d sent (first difference at %d)", su.name, vers, applied, len(got), len(sent), firstDiff(got, sent))
		return
	}
	if applied == "" {
		if !bytes.Equal(got, sent) || sErr != io.EOF {
			s.FailK("C42.clean", "untampered-stream-not-delivered", "suite %s version %x: %d of %d bytes, final error %v", su.name, vers, len(got), len(sent), sErr)
			return
		}
		s.Probe("tls_clean_stream_checked")
		return
	}
	if sErr == nil || sErr == io.EOF {
		s.FailK("C42.detect", "tampering-not-detected:"+opName(op), "suite %s version %x, %s: the server application read %d of %d bytes and then a clean end of stream (%v)", su.name, vers, applied, len(got), len(sent), sErr)
		return
	}
	s.Probe("tls_tampering_detected")
	s.Probe("tls_suite_" + su.name)
}

func opName(op int) string {
	return []string{"none", "bit-flip", "cut-mid-record", "cut-at-record-boundary", "drop", "replay", "swap", "forged-record"}[op]
}

func firstDiff(a, b []byte) int {
	n := len(a)
	if len(b) < n {
		n = len(b)
	}
	for i := 0; i < n; i++ {
		if a[i] != b[i] {
			return i
		}
	}
	return n
}
