//go:build verif
// +build verif

package bfe_tls

import (
	"bytes"
	"crypto/ecdsa"
	"crypto/elliptic"
	"crypto/rand"
	"crypto/rsa"
	stdtls "crypto/tls"
	"crypto/x509"
	"crypto/x509/pkix"
	"encoding/pem"
	"fmt"
	"io"
	"math/big"
	"testing"
	"time"

	"verif/simrt"
	"verif/simrt/simnet"
)

// Engine G: the real bfe_tls server side (Server(conn, config): handshake state machine, record
// layer, tickets) on a simulated connection. The peer is Go's crypto/tls client (an independent,
// current implementation) for negotiation and resumption, bfe_tls's own client where a suite or
// version only bfe speaks is needed, a raw ClientHello writer for TLS_FALLBACK_SCSV, and a
// record-aware man-in-the-middle task for tampering.

func TestSim(t *testing.T) {
	opt := simrt.Options{MaxSteps: 200000}
	simrt.Main(t, map[string]simrt.Prop{
		"C41": {Run: runC41, Opt: opt},
		"C42": {Run: runC42, Opt: opt},
		"C44": {Run: runC44, Opt: opt},
	})
}

var (
	vRSACert, vECCert, vCliCert Certificate
	stdCliCert                  stdtls.Certificate
	vClientCAs                  *x509.CertPool
)

func init() {
	vRSACert = mustCert(false, "server-rsa")
	vECCert = mustCert(true, "server-ec")
	vCliCert = mustCert(true, "client")
	var err error
	stdCliCert, err = stdtls.X509KeyPair(vCertPEM["client"], vKeyPEM["client"])
	if err != nil {
		panic(err)
	}
	vClientCAs = x509.NewCertPool()
	vClientCAs.AppendCertsFromPEM(vCertPEM["client"])
}

var vCertPEM, vKeyPEM = map[string][]byte{}, map[string][]byte{}

func mustCert(ec bool, cn string) Certificate {
	tmpl := &x509.Certificate{SerialNumber: big.NewInt(int64(len(cn)) + 7), Subject: pkix.Name{CommonName: cn}, NotBefore: time.Unix(0, 0), NotAfter: time.Unix(4e9, 0),
		KeyUsage: x509.KeyUsageDigitalSignature | x509.KeyUsageKeyEncipherment | x509.KeyUsageCertSign, ExtKeyUsage: []x509.ExtKeyUsage{x509.ExtKeyUsageServerAuth, x509.ExtKeyUsageClientAuth},
		DNSNames: []string{"h.example"}, IsCA: true, BasicConstraintsValid: true}
	var der, kder []byte
	var err error
	ktype := "RSA PRIVATE KEY"
	if ec {
		k, _ := ecdsa.GenerateKey(elliptic.P256(), rand.Reader)
		der, err = x509.CreateCertificate(rand.Reader, tmpl, tmpl, &k.PublicKey, k)
		kder, _ = x509.MarshalECPrivateKey(k)
		ktype = "EC PRIVATE KEY"
	} else {
		k, _ := rsa.GenerateKey(rand.Reader, 2048)
		der, err = x509.CreateCertificate(rand.Reader, tmpl, tmpl, &k.PublicKey, k)
		kder = x509.MarshalPKCS1PrivateKey(k)
	}
	if err != nil {
		panic(err)
	}
	vCertPEM[cn] = pem.EncodeToMemory(&pem.Block{Type: "CERTIFICATE", Bytes: der})
	vKeyPEM[cn] = pem.EncodeToMemory(&pem.Block{Type: ktype, Bytes: kder})
	c, err := X509KeyPair(vCertPEM[cn], vKeyPEM[cn])
	if err != nil {
		panic(err)
	}
	return c
}

type fixedProtos []string

func (p fixedProtos) Get(c *Conn) []string { return p }

type fixedRule struct{ r *Rule }

func (f fixedRule) Get(c *Conn) *Rule { return f.r }

// suites both Go's client and bfe's server implement (RSA certificate)
var commonSuites = []uint16{0xc02f, 0xcca8, 0xc013, 0xc014, 0x002f, 0x0035, 0xc012, 0x000a, 0xc011, 0x0005}

func isRC4(id uint16) bool    { return id == 0xc011 || id == 0x0005 || id == 0xc007 }
func isChacha(id uint16) bool { return id == 0xcca8 || id == 0xcca9 }
func isTLS12Only(id uint16) bool {
	return id == 0xc02f || id == 0xc02b || id == 0xcca8 || id == 0xcca9
}

func subset(tp *simrt.Tape, all []uint16, label string) []uint16 {
	var r []uint16
	for _, x := range all {
		if tp.Chance(1, 2, label) {
			r = append(r, x)
		}
	}
	return r
}

func has16(l []uint16, x uint16) bool {
	for _, y := range l {
		if y == x {
			return true
		}
	}
	return false
}

func hasS(l []string, x string) bool {
	for _, y := range l {
		if y == x {
			return true
		}
	}
	return false
}

func patterned(n int, salt byte) []byte {
	b := make([]byte, n)
	for i := range b {
		b[i] = byte(i) ^ byte(i>>8)*13 ^ salt
	}
	return b
}

// C41: negotiation against Go's crypto/tls client, and the TLS_FALLBACK_SCSV rule with a raw hello.
func runC41(s *simrt.Sim) {
	tp := s.Tape
	if tp.Chance(1, 5, "resumed_connection") {
		// the clauses about suite and version also bind a resumed connection
		resumeScenario(s, "C41")
		return
	}
	s.SetSticky([]int{2, 4, 10}[tp.Draw(3, "sched.strategy")])
	net := simnet.New(s)
	if simrt.Mode() != "nofault" {
		net.Seg = []int{0, 3, 8}[tp.Draw(3, "net.seg")]
	}
	// server configuration
	vers := []uint16{0, VersionTLS10, VersionTLS11, VersionTLS12}
	sMin, sMax := vers[tp.Draw(4, "srv.min")], vers[tp.Draw(4, "srv.max")]
	if sMin != 0 && sMax != 0 && sMin > sMax {
		sMin, sMax = sMax, sMin
	}
	scfg := &Config{Certificates: []Certificate{vRSACert}, MinVersion: sMin, MaxVersion: sMax, PreferServerCipherSuites: tp.Chance(1, 2, "srv.prefer")}
	if tp.Chance(1, 2, "srv.suites") {
		scfg.CipherSuites = subset(tp, commonSuites, "srv.suite")
	}
	allProtos := []string{"h2", "spdy/3.1", "http/1.1"}
	var sProtos []string
	for _, p := range allProtos {
		if tp.Chance(1, 2, "srv.proto") {
			sProtos = append(sProtos, p)
		}
	}
	scfg.NextProtos = sProtos
	rule := &Rule{Grade: []string{GradeC, GradeB, GradeA, GradeAPlus}[tp.Draw(4, "rule.grade")], Chacha20: tp.Chance(1, 2, "rule.chacha"), NextProtos: fixedProtos(sProtos)}
	useRule := tp.Chance(2, 3, "rule.use")
	if useRule {
		scfg.ServerRule = fixedRule{rule}
	}
	effMin, effMax := scfg.minVersion(), scfg.maxVersion()
	if useRule && rule.Grade == GradeAPlus && effMin < VersionTLS12 {
		effMin = VersionTLS12
	}
	if useRule && rule.Grade == GradeA && effMin < VersionTLS10 {
		effMin = VersionTLS10
	}
	if tp.Chance(1, 4, "scsv") {
		c41scsv(s, net, scfg, effMin, effMax)
		return
	}
	// client configuration
	cvers := []uint16{stdtls.VersionTLS10, stdtls.VersionTLS11, stdtls.VersionTLS12, stdtls.VersionTLS13}
	cMin, cMax := cvers[tp.Draw(4, "cli.min")], cvers[tp.Draw(4, "cli.max")]
	if cMin > cMax {
		cMin, cMax = cMax, cMin
	}
	ccfg := &stdtls.Config{InsecureSkipVerify: true, ServerName: "h.example", MinVersion: cMin, MaxVersion: cMax}
	var cSuites []uint16
	if tp.Chance(2, 3, "cli.suites") {
		cSuites = subset(tp, commonSuites, "cli.suite")
		if len(cSuites) == 0 {
			cSuites = []uint16{0xc02f}
		}
		ccfg.CipherSuites = cSuites
	}
	var cProtos []string
	for _, p := range allProtos {
		if tp.Chance(1, 2, "cli.proto") {
			cProtos = append(cProtos, p)
		}
	}
	ccfg.NextProtos = cProtos
	s.Note("op", fmt.Sprintf("server min=%x max=%x suites=%x prefer=%v protos=%v rule=%v grade=%s chacha=%v | client min=%x max=%x suites=%x protos=%v", sMin, sMax, scfg.CipherSuites, scfg.PreferServerCipherSuites, sProtos, useRule, rule.Grade, rule.Chacha20, cMin, cMax, cSuites, cProtos))
	cconn, sconn := net.Pair("192.0.2.1:5000", "10.0.0.1:443")
	c2s := patterned(tp.Draw(40000, "data.c2s"), 1)
	s2c := patterned(tp.Draw(40000, "data.s2c"), 2)
	var sState ConnectionState
	var cState stdtls.ConnectionState
	var sErr, cErr error
	var sGot, cGot []byte
	srvTask := simrt.GoNamed("tls.server", nil, func() {
		defer sconn.Close()
		sconn.SetDeadline(time.Now().Add(time.Minute))
		srv := Server(sconn, scfg)
		if sErr = srv.Handshake(); sErr != nil {
			return
		}
		sState = srv.ConnectionState()
		buf := make([]byte, len(c2s))
		if _, err := io.ReadFull(srv, buf); err != nil {
			sErr = fmt.Errorf("reading application data: %v", err)
			return
		}
		sGot = buf
		if _, err := srv.Write(s2c); err != nil {
			sErr = fmt.Errorf("writing application data: %v", err)
			return
		}
		srv.Close()
	})
	cliTask := simrt.GoNamed("tls.client", nil, func() {
		defer cconn.Close()
		cconn.SetDeadline(time.Now().Add(time.Minute))
		cli := stdtls.Client(cconn, ccfg)
		if cErr = cli.Handshake(); cErr != nil {
			return
		}
		cState = cli.ConnectionState()
		if _, err := cli.Write(c2s); err != nil {
			cErr = fmt.Errorf("writing application data: %v", err)
			return
		}
		buf := make([]byte, len(s2c))
		if _, err := io.ReadFull(cli, buf); err != nil {
			cErr = fmt.Errorf("reading application data: %v", err)
			return
		}
		cGot = buf
	})
	simrt.Join(srvTask, cliTask)
	s.Checked(1)
	if (sErr == nil) != (cErr == nil) && (sState.HandshakeComplete != cState.HandshakeComplete) {
		// one side thinks the handshake is done, the other failed: look at what the completed side holds
	}
	if !sState.HandshakeComplete && !cState.HandshakeComplete {
		// no connection: fine, unless both sides plainly share parameters
		if scfg.CipherSuites == nil && cSuites == nil && cMax >= stdtls.VersionTLS12 && uint16(cMin) <= effMax && effMin <= VersionTLS12 && effMax >= VersionTLS12 && !(useRule && rule.Grade == "") {
			s.FailK("C41.connect", "default-configurations-do-not-connect", "server %v / client %v", sErr, cErr)
			return
		}
		s.Probe("tls_handshake_refused")
		return
	}
	if !sState.HandshakeComplete || !cState.HandshakeComplete {
		s.FailK("C41.agree", "one-side-completed-only", "server complete=%v (%v), client complete=%v (%v)", sState.HandshakeComplete, sErr, cState.HandshakeComplete, cErr)
		return
	}
	v := sState.Version
	if v != cState.Version || sState.CipherSuite != cState.CipherSuite || sState.NegotiatedProtocol != cState.NegotiatedProtocol {
		s.FailK("C41.agree", "sides-disagree", "server: version %x suite %x alpn %q; client: version %x suite %x alpn %q", v, sState.CipherSuite, sState.NegotiatedProtocol, cState.Version, cState.CipherSuite, cState.NegotiatedProtocol)
		return
	}
	if v < effMin || v > effMax {
		s.FailK("C41.version", "version-outside-server-range", "negotiated %x, the server allows %x..%x (MinVersion %x, MaxVersion %x, grade %v)", v, effMin, effMax, sMin, sMax, rule.Grade)
		return
	}
	if v > cMax || v < cMin {
		s.FailK("C41.version", "version-outside-client-range", "negotiated %x, the client offered %x..%x", v, cMin, cMax)
		return
	}
	suite := sState.CipherSuite
	if cSuites != nil && !has16(cSuites, suite) {
		s.FailK("C41.suite", "suite-not-offered-by-client", "negotiated %x, the client offered %x", suite, cSuites)
		return
	}
	if !has16(scfg.cipherSuites(), suite) {
		s.FailK("C41.suite", "suite-not-enabled-on-server", "negotiated %x, the server enables %x", suite, scfg.cipherSuites())
		return
	}
	if useRule {
		if isChacha(suite) && !rule.Chacha20 {
			s.FailK("C41.suite", "suite-disabled-by-rule", "negotiated ChaCha20 suite %x although the connection's rule has Chacha20 off", suite)
			return
		}
		if isRC4(suite) && (rule.Grade == GradeA || rule.Grade == GradeAPlus || rule.Grade == GradeB) {
			s.FailK("C41.suite", "suite-disabled-by-rule", "negotiated RC4 suite %x under grade %s at version %x", suite, rule.Grade, v)
			return
		}
	}
	if isTLS12Only(suite) && v < VersionTLS12 {
		s.FailK("C41.suite", "tls12-suite-below-tls12", "suite %x at version %x", suite, v)
		return
	}
	// (http/1.1 is what bfe falls back to when h2 was agreed but the TLS parameters do not allow it,
	// RFC 7540 9.2: every bfe listener speaks it, listed or not; the client must have offered it)
	h2Declined := hasS(sProtos, "h2") && hasS(cProtos, "h2") && sState.NegotiatedProtocol == "http/1.1" && hasS(cProtos, "http/1.1")
	if p := sState.NegotiatedProtocol; p != "" && !h2Declined && (!hasS(cProtos, p) || !hasS(sProtos, p)) {
		s.FailK("C41.alpn", "protocol-not-offered-by-both", "negotiated %q; client offers %v, server offers %v", p, cProtos, sProtos)
		return
	}
	if sErr != nil || cErr != nil || !bytes.Equal(sGot, c2s) || !bytes.Equal(cGot, s2c) {
		s.FailK("C41.data", "application-data-not-intact", "after the handshake (version %x suite %x): server err %v, client err %v, server got %d/%d bytes, client got %d/%d bytes", v, suite, sErr, cErr, len(sGot), len(c2s), len(cGot), len(s2c))
		return
	}
	s.Probe("tls_handshake_checked")
	s.Probe(fmt.Sprintf("tls_version_%x", v))
}

// c41scsv: a raw ClientHello with TLS_FALLBACK_SCSV
func c41scsv(s *simrt.Sim, net *simnet.Net, scfg *Config, effMin, effMax uint16) {
	tp := s.Tape
	cv := []uint16{VersionTLS10, VersionTLS11, VersionTLS12}[tp.Draw(3, "scsv.version")]
	scfg.CipherSuites = nil
	suites := []uint16{0x002f, 0x0035}
	pos := tp.Draw(3, "scsv.pos")
	withSCSV := append(append(append([]uint16{}, suites[:minI(pos, len(suites))]...), TLS_FALLBACK_SCSV), suites[minI(pos, len(suites)):]...)
	hello := []byte{byte(cv >> 8), byte(cv)}
	hello = append(hello, patterned(32, 9)...)
	hello = append(hello, 0) // session id
	hello = append(hello, byte(len(withSCSV)*2>>8), byte(len(withSCSV)*2))
	for _, x := range withSCSV {
		hello = append(hello, byte(x>>8), byte(x))
	}
	hello = append(hello, 1, 0) // null compression
	hs := append([]byte{1, 0, byte(len(hello) >> 8), byte(len(hello))}, hello...)
	rec := append([]byte{22, 3, 1, byte(len(hs) >> 8), byte(len(hs))}, hs...)
	s.Note("op", fmt.Sprintf("raw ClientHello version %x with TLS_FALLBACK_SCSV at position %d; server MinVersion %x MaxVersion %x (effective %x..%x) prefer=%v", cv, pos, scfg.MinVersion, scfg.MaxVersion, effMin, effMax, scfg.PreferServerCipherSuites))
	cconn, sconn := net.Pair("192.0.2.1:5000", "10.0.0.1:443")
	var sErr error
	srvTask := simrt.GoNamed("tls.server", nil, func() {
		defer sconn.Close()
		sconn.SetDeadline(time.Now().Add(20 * time.Second))
		sErr = Server(sconn, scfg).Handshake()
	})
	var first []byte
	cliTask := simrt.GoNamed("tls.rawclient", nil, func() {
		defer cconn.Close()
		cconn.SetDeadline(time.Now().Add(10 * time.Second))
		cconn.Write(rec)
		buf := make([]byte, 5)
		if _, err := io.ReadFull(cconn, buf); err != nil {
			return
		}
		body := make([]byte, int(buf[3])<<8|int(buf[4]))
		io.ReadFull(cconn, body)
		first = append(buf, body...)
	})
	simrt.Join(srvTask, cliTask)
	s.Checked(1)
	if cv < effMin || cv > effMax && false {
		s.Probe("tls_scsv_version_unsupported")
		return
	}
	isAlert := len(first) >= 7 && first[0] == 21
	alert := -1
	if isAlert {
		alert = int(first[6])
	}
	isServerHello := len(first) > 5 && first[0] == 22 && first[5] == 2
	if cv < effMax {
		// a fallback below what the server could do: must be refused
		if isServerHello {
			s.FailK("C41.fallback", "inappropriate-fallback-accepted", "ClientHello at version %x carrying TLS_FALLBACK_SCSV; the server's highest enabled version is %x (MaxVersion field %x) and it answered with a ServerHello", cv, effMax, scfg.MaxVersion)
			return
		}
		if !isAlert {
			s.FailK("C41.fallback", "fallback-neither-refused-nor-served", "first record from the server: %x (handshake error %v)", first, sErr)
			return
		}
		s.Probe("tls_scsv_refused")
		_ = alert
		return
	}
	// at the server's highest version the SCSV is harmless
	if isAlert && alert == 86 {
		s.FailK("C41.fallback", "fallback-refused-at-highest-version", "ClientHello at the server's highest version %x with TLS_FALLBACK_SCSV was refused with inappropriate_fallback", cv)
		return
	}
	s.Probe("tls_scsv_harmless")
}

func minI(a, b int) int {
	if a < b {
		return a
	}
	return b
}
