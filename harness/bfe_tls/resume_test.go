//go:build verif
// +build verif

package bfe_tls

import (
	"bytes"
	stdtls "crypto/tls"
	"fmt"
	"io"
	"time"

	"verif/simrt"
	"verif/simrt/simnet"
)

// oneSession: a ClientSessionCache that holds what the first connection stored and lets the
// harness replace the ticket bytes before the second connection.
type oneSession struct {
	cs *stdtls.ClientSessionState
}

func (o *oneSession) Get(key string) (*stdtls.ClientSessionState, bool) { return o.cs, o.cs != nil }
func (o *oneSession) Put(key string, cs *stdtls.ClientSessionState) {
	if cs != nil {
		o.cs = cs
	}
}

type connResult struct {
	sState     ConnectionState
	cState     stdtls.ConnectionState
	sErr, cErr error
	dataOK     bool
}

// connect runs one handshake + data exchange between bfe's server and the standard client.
func connect(s *simrt.Sim, net *simnet.Net, scfg *Config, ccfg *stdtls.Config, n int) connResult {
	var r connResult
	cconn, sconn := net.Pair(fmt.Sprintf("192.0.2.1:%d", 5000+n), "10.0.0.1:443")
	c2s, s2c := patterned(300+n, 3), patterned(500+n, 4)
	var sGot, cGot []byte
	st := simrt.GoNamed("tls.server", n, func() {
		defer sconn.Close()
		sconn.SetDeadline(time.Now().Add(time.Minute))
		srv := Server(sconn, scfg)
		if r.sErr = srv.Handshake(); r.sErr != nil {
			return
		}
		r.sState = srv.ConnectionState()
		buf := make([]byte, len(c2s))
		if _, err := io.ReadFull(srv, buf); err != nil {
			r.sErr = err
			return
		}
		sGot = buf
		srv.Write(s2c)
		srv.Close()
	})
	ct := simrt.GoNamed("tls.client", n, func() {
		defer cconn.Close()
		cconn.SetDeadline(time.Now().Add(time.Minute))
		cli := stdtls.Client(cconn, ccfg)
		if r.cErr = cli.Handshake(); r.cErr != nil {
			return
		}
		r.cState = cli.ConnectionState()
		if _, err := cli.Write(c2s); err != nil {
			r.cErr = err
			return
		}
		buf := make([]byte, len(s2c))
		if _, err := io.ReadFull(cli, buf); err != nil {
			r.cErr = err
			return
		}
		cGot = buf
	})
	simrt.Join(st, ct)
	r.dataOK = bytes.Equal(sGot, c2s) && bytes.Equal(cGot, s2c)
	return r
}

// C44 (and, on resumed connections, the suite / version clauses of C41): a history of two
// connections with a configuration change or a ticket manipulation in between.
func runC44(s *simrt.Sim) { resumeScenario(s, "C44") }

func resumeScenario(s *simrt.Sim, focus string) {
	tp := s.Tape
	s.SetSticky([]int{2, 4, 10}[tp.Draw(3, "sched.strategy")])
	net := simnet.New(s)
	if simrt.Mode() != "nofault" {
		net.Seg = []int{0, 3, 8}[tp.Draw(3, "net.seg")]
	}
	// first connection
	suites := []uint16{0xc02f, 0xcca8, 0xc013, 0x002f, 0xc011, 0x0005}
	suite1 := suites[tp.Draw(len(suites), "suite1")]
	vmax := []uint16{VersionTLS12, VersionTLS12, VersionTLS11, VersionTLS10}[tp.Draw(4, "version1")]
	if isTLS12Only(suite1) {
		vmax = VersionTLS12
	}
	rule := &Rule{Grade: GradeC, Chacha20: true, NextProtos: fixedProtos(nil)}
	needCert1 := tp.Chance(1, 4, "clientauth1")
	scfg := &Config{Certificates: []Certificate{vRSACert}, MaxVersion: vmax, CipherSuites: append([]uint16{}, suites...), ServerRule: fixedRule{rule}, PreferServerCipherSuites: true}
	for i := range scfg.SessionTicketKey {
		scfg.SessionTicketKey[i] = byte(i + 1)
	}
	if needCert1 {
		scfg.ClientAuth = RequireAnyClientCert
	}
	cache := &oneSession{}
	ccfg := &stdtls.Config{InsecureSkipVerify: true, ServerName: "h.example", MinVersion: stdtls.VersionTLS10, MaxVersion: vmax, CipherSuites: []uint16{suite1}, ClientSessionCache: cache,
		Certificates: []stdtls.Certificate{stdCliCert}}
	r1 := connect(s, net, scfg, ccfg, 1)
	if r1.sErr != nil || r1.cErr != nil || !r1.dataOK {
		s.Probe("tls_first_connection_failed")
		return
	}
	if cache.cs == nil {
		s.Probe("tls_no_ticket_issued")
		return
	}
	v1, s1 := r1.sState.Version, r1.sState.CipherSuite
	hadCert1 := len(r1.sState.PeerCertificates) > 0
	// what changes before the second connection
	invalid := "" // why the old session must not be resumed
	scfg2 := scfg.Clone()
	scfg2.ClientAuth = scfg.ClientAuth
	rule2 := *rule
	scfg2.ServerRule = fixedRule{&rule2}
	ccfg2 := ccfg.Clone()
	ccfg2.ClientSessionCache = cache
	change := tp.Draw(10, "change")
	switch change {
	case 0: // nothing
	case 1:
		scfg2.SessionTicketKey[5] ^= 0x40
		invalid = "the server's ticket key was rotated"
	case 2:
		var keep []uint16
		for _, x := range suites {
			if x != s1 {
				keep = append(keep, x)
			}
		}
		scfg2.CipherSuites = keep
		ccfg2.CipherSuites = append([]uint16{s1}, 0xc014)
		invalid = fmt.Sprintf("the server no longer enables suite %x", s1)
	case 3:
		if isChacha(s1) {
			rule2.Chacha20 = false
			invalid = "the connection's rule now disables ChaCha20"
		} else if isRC4(s1) {
			rule2.Grade = GradeA
			invalid = "the connection's rule (grade A) now disables RC4"
		}
		ccfg2.CipherSuites = append([]uint16{s1}, 0xc014)
	case 4:
		if v1 > VersionTLS10 {
			scfg2.MaxVersion = v1 - 1
			ccfg2.MaxVersion = v1
			invalid = fmt.Sprintf("the server's MaxVersion is now %x, below the session's %x", v1-1, v1)
			if isTLS12Only(s1) {
				ccfg2.CipherSuites = append([]uint16{s1}, 0xc014)
			}
		}
	case 5:
		if !hadCert1 {
			if tp.Chance(1, 2, "clientauth2.via_rule") {
				rule2.ClientAuth = true
				rule2.ClientCAs = vClientCAs
			} else {
				scfg2.ClientAuth = RequireAnyClientCert
			}
			invalid = "the server now requires a client certificate and the session was made without one"
		}
	case 6, 7, 8:
		ticket, st, err := cache.cs.ResumptionState()
		if err == nil && len(ticket) > 0 {
			t2 := append([]byte(nil), ticket...)
			switch change {
			case 6:
				i := tp.Draw(len(t2), "ticket.flip_at")
				t2[i] ^= 1 << uint(tp.Draw(8, "ticket.flip_bit"))
				invalid = fmt.Sprintf("the ticket was modified (bit flipped in byte %d of %d)", i, len(t2))
			case 7:
				t2 = t2[:tp.Draw(len(t2), "ticket.truncate")]
				invalid = fmt.Sprintf("the ticket was truncated to %d of %d bytes", len(t2), len(ticket))
			case 8:
				for i := range t2 {
					t2[i] = byte(tp.Draw(256, "ticket.random"))
				}
				invalid = "the ticket is random bytes (foreign key)"
			}
			if len(t2) == 0 {
				invalid = ""
				break
			}
			if ncs, err := stdtls.NewResumptionState(t2, st); err == nil {
				cache.cs = ncs
			} else {
				invalid = ""
			}
			s.Fault("ticket_tampered")
		}
	case 9:
		ccfg2.CipherSuites = []uint16{0xc014, 0x0035}
		invalid = "the client no longer offers the session's suite"
	}
	s.Note("op", fmt.Sprintf("first connection: version %x suite %x client-cert=%v; then: %s (change %d)", v1, s1, hadCert1, invalid, change))
	if invalid != "" {
		s.Fault("config_or_ticket_change")
	}
	r2 := connect(s, net, scfg2, ccfg2, 2)
	s.Checked(1)
	if !r2.sState.HandshakeComplete {
		s.Probe("tls_second_connection_refused")
		return
	}
	if !r2.sState.DidResume {
		s.Probe("tls_full_handshake_instead")
		// a full handshake under the new configuration: the client-certificate requirement holds there too
		if (scfg2.ClientAuth == RequireAnyClientCert || rule2.ClientAuth) && len(r2.sState.PeerCertificates) == 0 {
			s.FailK("C44.clientauth", "client-certificate-requirement-skipped", "second connection completed by a full handshake without a client certificate although one is required")
		}
		return
	}
	// resumed
	if invalid != "" {
		key := []string{"", "ticket-key-rotated", "suite-disabled-on-server", "suite-disabled-by-rule", "version-out-of-range", "client-certificate-requirement-skipped", "modified-ticket-honoured", "truncated-ticket-honoured", "foreign-ticket-honoured", "suite-not-offered"}[change]
		clause := "C44.resume"
		if focus == "C41" && (change == 2 || change == 3 || change == 4) {
			clause = "C41.suite"
		}
		s.FailK(clause, key, "the second connection was resumed (DidResume) although %s; it runs at version %x with suite %x", invalid, r2.sState.Version, r2.sState.CipherSuite)
		return
	}
	if r2.sState.Version != v1 || r2.sState.CipherSuite != s1 {
		s.FailK("C44.params", "resumed-with-other-parameters", "the session was made at version %x with suite %x, the resumed connection runs at version %x with suite %x", v1, s1, r2.sState.Version, r2.sState.CipherSuite)
		return
	}
	if r2.sErr != nil || r2.cErr != nil || !r2.dataOK {
		s.FailK("C44.data", "resumed-connection-broken", "server err %v, client err %v, data intact %v", r2.sErr, r2.cErr, r2.dataOK)
		return
	}
	if hadCert1 != (len(r2.sState.PeerCertificates) > 0) {
		s.FailK("C44.clientauth", "client-certificates-not-carried-over", "session with client certificate=%v resumed with client certificate=%v", hadCert1, len(r2.sState.PeerCertificates) > 0)
		return
	}
	s.Probe("tls_resumed_checked")
}
