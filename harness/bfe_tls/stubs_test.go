//go:build verif
// +build verif

package bfe_tls

import "verif/simrt"

func runC42(s *simrt.Sim) {}
