//go:build verif
// +build verif

package pipe

import (
	"bytes"
	"errors"
	"fmt"
	"io"
	"testing"
	"time"

	"github.com/anishathalye/porcupine"

	"verif/simrt"
)

func TestSim(t *testing.T) {
	simrt.Main(t, map[string]simrt.Prop{
		"C21": {Run: runC21, Opt: simrt.Options{MaxSteps: 20000, StuckClause: "C21.deadlock", MaxStepsClause: "C21.livelock", IdleLimit: time.Minute}},
	})
}

// ---- recorded history (one entry per completed operation) ----

type pipeOp struct {
	Kind   string // write read close break
	Arg    []byte // write: data; read: nil
	Max    int    // read: len(buffer)
	Err    string // close/break: error text
	N      int
	Data   []byte // read result
	RetErr string
	Call   int64
	Ret    int64
	Client int
}

var (
	errCloseA = errors.New("close-A")
	errCloseB = errors.New("close-B")
	errBreak  = errors.New("break-X")
)

// sequential reference model: bounded FIFO with close-after-drain and immediate break
type pipeState struct {
	Buf      string
	Size     int
	CloseErr string
	BreakErr string
}

func pipeModel() porcupine.Model {
	return porcupine.Model{
		Init: func() interface{} { return pipeState{} },
		Step: func(st, in, out interface{}) (bool, interface{}) {
			s := st.(pipeState)
			op := in.(pipeOp)
			res := out.(pipeOp)
			if s.Size == 0 {
				s.Size = op.Max // first op carries the size in Max when Kind=="init"
			}
			switch op.Kind {
			case "init":
				return true, s
			case "write":
				if s.CloseErr != "" {
					return res.N == 0 && res.RetErr != "", s
				}
				free := s.Size - len(s.Buf)
				n := len(op.Arg)
				if n > free {
					n = free
				}
				if res.N != n {
					return false, s
				}
				if (n < len(op.Arg)) != (res.RetErr != "") {
					return false, s
				}
				s.Buf += string(op.Arg[:n])
				return true, s
			case "read":
				if s.BreakErr != "" {
					return res.N == 0 && res.RetErr == s.BreakErr, s
				}
				if len(s.Buf) > 0 {
					n := len(s.Buf)
					if n > op.Max {
						n = op.Max
					}
					if res.N != n || res.RetErr != "" || string(res.Data) != s.Buf[:n] {
						return false, s
					}
					s.Buf = s.Buf[n:]
					return true, s
				}
				if s.CloseErr != "" {
					return res.N == 0 && res.RetErr == s.CloseErr, s
				}
				return false, s // would block: cannot take effect here
			case "close":
				if s.CloseErr == "" || s.CloseErr == "EOF" {
					s.CloseErr = op.Err
				}
				return true, s
			case "break":
				if s.BreakErr == "" || s.BreakErr == "EOF" {
					s.BreakErr = op.Err
				}
				return true, s
			}
			return false, s
		},
		Equal: func(a, b interface{}) bool { return a.(pipeState) == b.(pipeState) },
		DescribeOperation: func(in, out interface{}) string {
			o := out.(pipeOp)
			return fmt.Sprintf("%s(%d/%d %s)->%d %q %s", o.Kind, len(o.Arg), o.Max, o.Err, o.N, o.Data, o.RetErr)
		},
	}
}

func errText(e error) string {
	if e == nil {
		return ""
	}
	return e.Error()
}

// C21: bytes written into a body pipe are read back in order exactly once; a
// read blocks until data or closure; close-with-error is reported only after
// the buffered data was read, a break immediately; a write that does not fit
// reports n<len together with an error; reader and writer never deadlock.
//
// Task bodies are methods (not closures) so that //go:norace covers the
// harness's own shared bookkeeping under the -race build.
type c21 struct {
	s          *simrt.Sim
	p          *Pipe
	stream     []byte
	wsizes     []int
	rbuf       int
	hist       [4][]pipeOp // writer, reader, closer, breaker
	accepted   int
	writerDone bool
	got        []byte
	readErr    error
	nofault    bool
	closeEarly bool
	eofFirst   bool
	closeTwice bool
	breakRet   int64
}

//go:norace
func (h *c21) rec(slot int, op pipeOp) { h.hist[slot] = append(h.hist[slot], op) }

//go:norace
func (h *c21) writer() {
	s, p := h.s, h.p
	off := 0
	for _, n := range h.wsizes {
		d := h.stream[off : off+n]
		call := int64(s.Note("inv", "write"))
		k, err := p.Write(d)
		ret := int64(s.Note("ret", fmt.Sprintf("write %d -> %d %v", n, k, err)))
		h.rec(0, pipeOp{Kind: "write", Arg: d, N: k, RetErr: errText(err), Call: call, Ret: ret, Client: 0})
		s.Checked(1)
		if k < 0 || k > len(d) {
			s.FailK("C21.write", "write-count-out-of-range", "Write(%d bytes) returned n=%d", len(d), k)
			return
		}
		if k < len(d) && err == nil {
			s.FailK("C21.write", "silent-truncation", "Write(%d bytes) accepted only %d without an error", len(d), k)
			return
		}
		if err != nil {
			s.Probe("write_refused")
			// what was not accepted is dropped by the producer (http2 resets the stream)
			h.stream = append(h.stream[:off+k:off+k], h.stream[off+n:]...)
		}
		off += k
		h.accepted = off
	}
	h.writerDone = true
}

//go:norace
func (h *c21) reader() {
	s, p := h.s, h.p
	buf := make([]byte, h.rbuf)
	for i := 0; i < 400; i++ {
		call := int64(s.Note("inv", "read"))
		n, err := p.Read(buf)
		ret := int64(s.Note("ret", fmt.Sprintf("read -> %d %v", n, err)))
		h.rec(1, pipeOp{Kind: "read", Max: h.rbuf, N: n, Data: append([]byte(nil), buf[:n]...), RetErr: errText(err), Call: call, Ret: ret, Client: 1})
		h.got = append(h.got, buf[:n]...)
		if err != nil {
			h.readErr = err
			return
		}
		if n == 0 {
			s.FailK("C21.read", "zero-read-no-error", "Read returned (0, nil)")
			return
		}
	}
}

//go:norace
func (h *c21) writerIsDone() bool { return h.writerDone }

//go:norace
func (h *c21) closer() {
	s, p := h.s, h.p
	// the producer closes its own pipe when done; in fault mode sometimes earlier
	if !h.closeEarly {
		simrt.WaitUntil(h.writerIsDone)
	} else {
		s.Probe("close_early")
	}
	first := errCloseA
	if h.eofFirst {
		first = io.EOF
	}
	call := int64(s.Note("inv", "close"))
	p.CloseWithError(first)
	ret := int64(s.Note("ret", "close"))
	h.rec(2, pipeOp{Kind: "close", Err: first.Error(), Call: call, Ret: ret, Client: 2})
	if h.closeTwice {
		call := int64(s.Note("inv", "close"))
		p.CloseWithError(errCloseB)
		ret := int64(s.Note("ret", "close"))
		h.rec(2, pipeOp{Kind: "close", Err: errCloseB.Error(), Call: call, Ret: ret, Client: 2})
	}
}

//go:norace
func (h *c21) breaker() {
	s, p := h.s, h.p
	call := int64(s.Note("inv", "break"))
	p.BreakWithError(errBreak)
	h.breakRet = int64(s.Note("ret", "break"))
	h.rec(3, pipeOp{Kind: "break", Err: errBreak.Error(), Call: call, Ret: h.breakRet, Client: 3})
	s.Fault("break")
}

//go:norace
func runC21(s *simrt.Sim) {
	tp := s.Tape
	h := &c21{s: s, nofault: simrt.Mode() == "nofault"}
	s.SetSticky([]int{0, 2, 3, 6, 20}[tp.Draw(5, "sched.strategy")])
	size := tp.Range(1, 64, "pipe.size")
	h.p = NewPipeWithSize(uint32(size))
	nw := tp.Range(1, 12, "n_writes")
	maxw := tp.Range(1, 80, "max_write")
	if tp.Chance(1, 2, "small_writes") {
		maxw = 1 + maxw%size
	}
	// the stream: byte i is distinct enough to detect duplication/reordering
	h.wsizes = make([]int, nw)
	for i := range h.wsizes {
		h.wsizes[i] = tp.Draw(maxw+1, "write.size")
		for k := 0; k < h.wsizes[i]; k++ {
			h.stream = append(h.stream, byte(33+(len(h.stream)*7+len(h.stream)/91)%90))
		}
	}
	h.rbuf = tp.Range(1, 40, "read.buf")
	doBreak := !h.nofault && tp.Chance(1, 3, "do_break")
	h.closeTwice = !h.nofault && tp.Chance(1, 4, "close_twice")
	h.eofFirst = tp.Chance(1, 3, "close_eof_first")
	h.closeEarly = !h.nofault && tp.Chance(1, 4, "close_early")
	wsizes := append([]int(nil), h.wsizes...)

	writer := simrt.GoNamed("writer", nil, h.writer)
	reader := simrt.GoNamed("reader", nil, h.reader)
	closer := simrt.GoNamed("closer", nil, h.closer)
	var breaker *simrt.Task
	if doBreak {
		breaker = simrt.GoNamed("breaker", nil, h.breaker)
	}
	simrt.Join(writer, reader, closer, breaker)
	if s.Failed() {
		return
	}
	stream, accepted, got, readErr, hist, breakRet, rbuf := h.stream, h.accepted, h.got, h.readErr, h.hist, h.breakRet, h.rbuf
	_ = rbuf
	// ---- direct invariants over the whole run
	s.Checked(1)
	if !bytes.HasPrefix(stream[:accepted], got) {
		s.FailK("C21.order", "read-not-prefix-of-accepted", "bytes read are not a prefix of the bytes accepted: read %q, accepted %q", got, stream[:accepted])
		return
	}
	if readErr == nil {
		s.FailK("C21.read", "reader-never-finished", "reader stopped without an error after 400 reads")
		return
	}
	broke := doBreak && readErr.Error() == errBreak.Error()
	if !broke {
		// closed: everything accepted before the close took effect must have been read;
		// writes after the close are refused with n=0, so accepted == delivered
		if len(got) != accepted {
			s.FailK("C21.drain", "close-reported-before-drain", "close error %v reported after %d of %d accepted bytes", readErr, len(got), accepted)
			return
		}
	} else {
		s.Probe("break_seen_by_reader")
	}
	// a break is immediate: any read invoked after BreakWithError returned delivers nothing
	if doBreak && breakRet > 0 {
		for _, o := range hist[1] {
			if o.Call > breakRet && (o.N != 0 || o.RetErr != errBreak.Error()) {
				s.FailK("C21.break", "break-not-immediate", "a Read invoked after BreakWithError returned gave %d bytes, err %q", o.N, o.RetErr)
				return
			}
		}
	}
	// ---- linearizability against the sequential model
	ops := []porcupine.Operation{{ClientId: 9, Input: pipeOp{Kind: "init", Max: size}, Output: pipeOp{Kind: "init"}, Call: -2, Return: -1}}
	total := 0
	for c := range hist {
		for _, o := range hist[c] {
			ops = append(ops, porcupine.Operation{ClientId: o.Client, Input: o, Output: o, Call: o.Call, Return: o.Ret})
			total++
		}
	}
	if total <= 60 {
		res := porcupine.CheckOperationsTimeout(pipeModel(), ops, 5*time.Second)
		s.Checked(1)
		switch res {
		case porcupine.Illegal:
			desc := ""
			for c := range hist {
				for _, o := range hist[c] {
					desc += fmt.Sprintf("[%d..%d %s(%d,%s)->%d %q %s] ", o.Call, o.Ret, o.Kind, len(o.Arg)+o.Max, o.Err, o.N, o.Data, o.RetErr)
				}
			}
			s.FailK("C21.linearizable", "not-linearizable", "history is not linearizable w.r.t. the bounded-FIFO model (size %d): %s", size, desc)
			return
		case porcupine.Unknown:
			s.Probe("porcupine_unknown")
		default:
			s.Probe("porcupine_ok")
		}
	} else {
		s.Probe("porcupine_skipped_long_history")
	}
	s.Sample = map[string]interface{}{"size": size, "writes": wsizes, "read_buf": rbuf, "break": doBreak, "accepted": accepted, "read": len(got), "read_err": errText(readErr)}
}
