#!/bin/sh
# Build the framework from files on disk only (offline): simgen, and warm the
# go1.26.8 build cache for the harness packages (plain and -race std).
set -e
cd "$(dirname "$0")"
export GOFLAGS=-mod=mod GOPROXY=off GOSUMDB=off GOTOOLCHAIN=local
mkdir -p bin evidence replays
(cd simgen && go1.26.8 build -o ../bin/simgen . && go1.26.8 build -o ../bin/simtypes ./simtypes)
(cd simrt && go1.26.8 vet ./... >/dev/null 2>&1 || true)
S=$(mktemp -d /var/tmp/verif.setup.XXXXXX)
trap 'rm -rf "$S"' EXIT
./bin/simgen -repo "${VERIF_REPO:-/repo}" -out "$S" -harness "$PWD/harness" -simrt "$PWD/simrt" >/dev/null
for pkg in $(python3 -c "import sys; sys.path.insert(0,'tools'); import props; print(' '.join(sorted({e['pkg'] for e in props.ENGINES.values()})))"); do
  (cd "${VERIF_REPO:-/repo}" && go1.26.8 test -c -tags verif -vet=off -modfile="$S/go.mod" -overlay="$S/overlay.json" -o "$S/t.test" "$pkg") || exit 1
done
(cd "${VERIF_REPO:-/repo}" && go1.26.8 build -race -modfile="$S/go.mod" -overlay="$S/overlay.json" ./bfe_balance/... ) || true
echo setup ok
