module verif/simgen

go 1.26
