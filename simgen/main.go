// simgen reads the current working tree of baidu/bfe and emits, outside the
// repository, rewritten copies of its Go files plus a `go build -overlay` JSON
// and a private -modfile, so that the real BFE code links against the
// simulator's seams (simsync, simrt.Go, simnet, seeded map iteration) without
// a single byte of /repo being modified. Harness files under -harness are
// added to the matching packages through the same overlay.
package main

import (
	"bytes"
	"encoding/json"
	"flag"
	"fmt"
	"go/ast"
	"go/format"
	"go/parser"
	"go/token"
	"os"
	"path/filepath"
	"sort"
	"strconv"
	"strings"
)

var (
	repo    = flag.String("repo", "/repo", "bfe working tree")
	out     = flag.String("out", "", "scratch output directory")
	harness = flag.String("harness", "/verif/harness", "harness tree (mirrors repo package paths)")
	simrt   = flag.String("simrt", "/verif/simrt", "simrt module directory")
	maps    = flag.String("maps", "", "JSON file with map-range sites from simtypes (optional)")
)

type stats struct {
	Files, SyncImports, GoStmts, NetCalls, MapRanges, MapRangesSkipped, HarnessFiles int
	Selects, SelectsSkipped                                                          int
}

func main() {
	flag.Parse()
	if *out == "" {
		fmt.Fprintln(os.Stderr, "simgen: -out required")
		os.Exit(2)
	}
	st := &stats{}
	replace := map[string]string{}
	mapSites := loadMapSites(*maps)
	err := filepath.Walk(*repo, func(path string, info os.FileInfo, err error) error {
		if err != nil {
			return err
		}
		if info.IsDir() {
			n := info.Name()
			if n == ".git" || n == "vendor" || n == "testdata" || n == "docs" || n == "snap" {
				return filepath.SkipDir
			}
			return nil
		}
		if !strings.HasSuffix(path, ".go") {
			return nil
		}
		rel, _ := filepath.Rel(*repo, path)
		src, err := os.ReadFile(path)
		if err != nil {
			return err
		}
		res, changed, err := rewrite(path, rel, src, st, mapSites)
		if err != nil {
			return fmt.Errorf("%s: %v", rel, err)
		}
		st.Files++
		if !changed {
			return nil
		}
		dst := filepath.Join(*out, "ov", rel)
		if err := os.MkdirAll(filepath.Dir(dst), 0o755); err != nil {
			return err
		}
		if err := os.WriteFile(dst, res, 0o644); err != nil {
			return err
		}
		replace[path] = dst
		return nil
	})
	if err != nil {
		fmt.Fprintln(os.Stderr, "simgen:", err)
		os.Exit(2)
	}
	// harness files: /verif/harness/<pkgpath>/x.go -> /repo/<pkgpath>/zz_verif_x.go
	filepath.Walk(*harness, func(path string, info os.FileInfo, err error) error {
		if err != nil || info.IsDir() || !strings.HasSuffix(path, ".go") {
			return nil
		}
		rel, _ := filepath.Rel(*harness, path)
		dir, base := filepath.Split(rel)
		if _, err := os.Stat(filepath.Join(*repo, dir)); err != nil {
			return nil // not a repo package (shared helper module etc.)
		}
		if !harnessCondition(path) {
			return nil
		}
		replace[filepath.Join(*repo, dir, "zz_verif_"+base)] = path
		st.HarnessFiles++
		return nil
	})
	ov, _ := json.MarshalIndent(map[string]interface{}{"Replace": replace}, "", " ")
	must(os.WriteFile(filepath.Join(*out, "overlay.json"), ov, 0o644))
	// private modfile
	gomod, err := os.ReadFile(filepath.Join(*repo, "go.mod"))
	must(err)
	extra := "\nrequire verif/simrt v0.0.0\nreplace verif/simrt => " + *simrt + "\n" +
		"require github.com/anishathalye/porcupine v1.3.0\n"
	must(os.WriteFile(filepath.Join(*out, "go.mod"), append(gomod, extra...), 0o644))
	gosum, err := os.ReadFile(filepath.Join(*repo, "go.sum"))
	must(err)
	if extraSum, err := os.ReadFile(filepath.Join(*simrt, "go.sum")); err == nil {
		gosum = append(gosum, extraSum...)
	}
	must(os.WriteFile(filepath.Join(*out, "go.sum"), gosum, 0o644))
	sj, _ := json.Marshal(st)
	must(os.WriteFile(filepath.Join(*out, "simgen_stats.json"), sj, 0o644))
	fmt.Println(string(sj))
}

func must(err error) {
	if err != nil {
		fmt.Fprintln(os.Stderr, "simgen:", err)
		os.Exit(2)
	}
}

type mapSite struct {
	File    string   `json:"file"`
	Line    int      `json:"line"`
	KeyType string   `json:"key_type"` // printable in that file, "" if not nameable
	Kind    string   `json:"kind"`     // "" map range, "select"
	Select  []string `json:"select"`   // per comm clause: elem type of a binding receive, "-" non-binding receive, "" send/default
}

func loadMapSites(path string) map[string]map[int]mapSite {
	r := map[string]map[int]mapSite{}
	if path == "" {
		return r
	}
	b, err := os.ReadFile(path)
	must(err)
	var sites []mapSite
	must(json.Unmarshal(b, &sites))
	for _, s := range sites {
		if r[s.File] == nil {
			r[s.File] = map[int]mapSite{}
		}
		k := s.Line
		if s.Kind == "select" {
			k = -s.Line // selects and map ranges may share a line; keep them apart
		}
		r[s.File][k] = s
	}
	return r
}

const rtName = "verifsimrt"

func rewrite(path, rel string, src []byte, st *stats, mapSites map[string]map[int]mapSite) ([]byte, bool, error) {
	fset := token.NewFileSet()
	f, err := parser.ParseFile(fset, path, src, parser.ParseComments)
	if err != nil {
		return nil, false, err
	}
	changed := false
	needRT := false
	netName := ""
	for _, im := range f.Imports {
		p, _ := strconv.Unquote(im.Path.Value)
		switch p {
		case "sync":
			im.Path.Value = strconv.Quote("verif/simrt/simsync")
			if im.Name == nil {
				im.Name = ast.NewIdent("sync")
			}
			im.EndPos = 0
			st.SyncImports++
			changed = true
		case "net":
			if im.Name == nil {
				netName = "net"
			} else if im.Name.Name != "_" && im.Name.Name != "." {
				netName = im.Name.Name
			}
		}
	}
	isTest := strings.HasSuffix(rel, "_test.go")
	needNet := false
	sites := mapSites[rel]
	ast.Inspect(f, func(n ast.Node) bool {
		switch x := n.(type) {
		case *ast.BlockStmt:
			rewriteList(fset, x.List, st, &changed, &needRT, isTest, sites)
		case *ast.CaseClause:
			rewriteList(fset, x.Body, st, &changed, &needRT, isTest, sites)
		case *ast.CommClause:
			rewriteList(fset, x.Body, st, &changed, &needRT, isTest, sites)
		case *ast.CallExpr:
			if netName != "" && !isTest {
				if sel, ok := x.Fun.(*ast.SelectorExpr); ok {
					if id, ok := sel.X.(*ast.Ident); ok && id.Name == netName && id.Obj == nil {
						switch sel.Sel.Name {
						case "Dial", "DialTimeout", "Listen":
							id.Name = "verifsimnet"
							needNet = true
							changed = true
							st.NetCalls++
						}
					}
				}
			}
		}
		return true
	})
	if !changed {
		return nil, false, nil
	}
	if needRT {
		addImport(f, rtName, "verif/simrt")
	}
	if needNet {
		addImport(f, "verifsimnet", "verif/simrt/simnet")
		// keep the original import used even if every use was rewritten
		f.Decls = append(f.Decls, &ast.GenDecl{Tok: token.VAR, Specs: []ast.Spec{&ast.ValueSpec{
			Names: []*ast.Ident{ast.NewIdent("_")}, Type: sel(netName, "Conn")}}})
	}
	var buf bytes.Buffer
	if err := format.Node(&buf, fset, f); err != nil {
		return nil, false, err
	}
	return buf.Bytes(), true, nil
}

func addImport(f *ast.File, name, path string) {
	spec := &ast.ImportSpec{Name: ast.NewIdent(name), Path: &ast.BasicLit{Kind: token.STRING, Value: strconv.Quote(path)}}
	decl := &ast.GenDecl{Tok: token.IMPORT, Specs: []ast.Spec{spec}}
	// after the last import decl (imports must precede other decls)
	idx := 0
	for i, d := range f.Decls {
		if g, ok := d.(*ast.GenDecl); ok && g.Tok == token.IMPORT {
			idx = i + 1
		}
	}
	f.Decls = append(f.Decls[:idx], append([]ast.Decl{decl}, f.Decls[idx:]...)...)
	f.Imports = append(f.Imports, spec)
}

func rewriteList(fset *token.FileSet, list []ast.Stmt, st *stats, changed, needRT *bool, isTest bool, sites map[int]mapSite) {
	for i, s := range list {
		switch x := s.(type) {
		case *ast.GoStmt:
			if isTest {
				continue
			}
			list[i] = rewriteGo(x)
			*changed = true
			*needRT = true
			st.GoStmts++
		case *ast.LabeledStmt:
			if g, ok := x.Stmt.(*ast.GoStmt); ok && !isTest {
				x.Stmt = rewriteGo(g)
				*changed = true
				*needRT = true
				st.GoStmts++
			}
			if sel, ok := x.Stmt.(*ast.SelectStmt); ok && !isTest && sites != nil {
				if site, ok := sites[-fset.Position(sel.Pos()).Line]; ok {
					if r := rewriteSelect(sel, site, x.Label.Name); r != nil {
						list[i] = r
						*changed = true
						*needRT = true
						st.Selects++
					} else if countComm(sel) >= 2 {
						st.SelectsSkipped++
					}
				}
			}
		case *ast.SelectStmt:
			if sites == nil || isTest {
				continue
			}
			if site, ok := sites[-fset.Position(x.Pos()).Line]; ok {
				if r := rewriteSelect(x, site, ""); r != nil {
					list[i] = r
					*changed = true
					*needRT = true
					st.Selects++
				} else if countComm(x) >= 2 {
					st.SelectsSkipped++
				}
			}
		case *ast.RangeStmt:
			if sites == nil {
				continue
			}
			site, ok := sites[fset.Position(x.Pos()).Line]
			if !ok {
				continue
			}
			if site.KeyType == "" {
				st.MapRangesSkipped++
				continue
			}
			if r := rewriteMapRange(x, site); r != nil {
				list[i] = r
				*changed = true
				*needRT = true
				st.MapRanges++
			} else {
				st.MapRangesSkipped++
			}
		}
	}
}

func sel(pkg, name string) ast.Expr {
	return &ast.SelectorExpr{X: ast.NewIdent(pkg), Sel: ast.NewIdent(name)}
}

func rewriteGo(g *ast.GoStmt) ast.Stmt {
	call := g.Call
	if fl, ok := call.Fun.(*ast.FuncLit); ok && len(call.Args) == 0 && fl.Type.Params.NumFields() == 0 {
		return &ast.ExprStmt{X: &ast.CallExpr{Fun: sel(rtName, "Go"), Args: []ast.Expr{fl}}}
	}
	fn := "GoCall"
	if call.Ellipsis.IsValid() {
		fn = "GoCallSlice"
	}
	args := append([]ast.Expr{call.Fun}, call.Args...)
	return &ast.ExprStmt{X: &ast.CallExpr{Fun: sel(rtName, fn), Args: args}}
}

// rewriteMapRange turns
//   for k, v := range m { body }
// into
//   for _, k := range verifsimrt.MapKeys(m).([]K) { v, ok := m[k]; if !ok { continue }; body }
// (the map expression is evaluated once, as in the original; a key deleted
// during iteration is skipped, a key inserted during iteration is not visited
// — both allowed by the Go spec).
func rewriteMapRange(r *ast.RangeStmt, site mapSite) ast.Stmt {
	if r.Tok != token.DEFINE && r.Tok != token.ILLEGAL {
		return nil // assignment form: rare, leave alone
	}
	kt, err := parser.ParseExpr(site.KeyType)
	if err != nil {
		return nil
	}
	mvar := ast.NewIdent("verifm_" + strconv.Itoa(site.Line))
	keyIdent := ast.NewIdent("_")
	if id, ok := r.Key.(*ast.Ident); ok && r.Key != nil {
		keyIdent = id
	} else if r.Key != nil {
		return nil
	}
	var pre []ast.Stmt
	kname := keyIdent
	needV := false
	if r.Value != nil {
		if id, ok := r.Value.(*ast.Ident); !ok {
			return nil
		} else if id.Name != "_" {
			needV = true
		}
	}
	if kname.Name == "_" && needV {
		kname = ast.NewIdent("verifk_" + strconv.Itoa(site.Line))
	}
	if needV {
		okv := ast.NewIdent("verifok_" + strconv.Itoa(site.Line))
		pre = append(pre,
			&ast.AssignStmt{Lhs: []ast.Expr{r.Value, okv}, Tok: token.DEFINE,
				Rhs: []ast.Expr{&ast.IndexExpr{X: mvar, Index: kname}}},
			&ast.IfStmt{Cond: &ast.UnaryExpr{Op: token.NOT, X: okv}, Body: &ast.BlockStmt{List: []ast.Stmt{&ast.BranchStmt{Tok: token.CONTINUE}}}},
		)
	}
	body := &ast.BlockStmt{List: append(pre, r.Body.List...)}
	keys := &ast.TypeAssertExpr{
		X:    &ast.CallExpr{Fun: sel(rtName, "MapKeys"), Args: []ast.Expr{mvar}},
		Type: &ast.ArrayType{Elt: kt},
	}
	loop := &ast.RangeStmt{Key: ast.NewIdent("_"), Value: kname, Tok: token.DEFINE, X: keys, Body: body}
	if r.Key == nil && r.Value == nil {
		loop.Value = nil
		loop.Key = nil
		loop.Tok = token.ILLEGAL
	} else if kname.Name == "_" {
		loop.Value = nil
		loop.Key = nil
		loop.Tok = token.ILLEGAL
	}
	return &ast.BlockStmt{List: []ast.Stmt{
		&ast.AssignStmt{Lhs: []ast.Expr{mvar}, Tok: token.DEFINE, Rhs: []ast.Expr{r.X}},
		loop,
	}}
}

var _ = sort.Strings

func countComm(s *ast.SelectStmt) int {
	n := 0
	for _, c := range s.Body.List {
		if c.(*ast.CommClause).Comm != nil {
			n++
		}
	}
	return n
}

func ident(name string) *ast.Ident { return ast.NewIdent(name) }

func intLit(n int) ast.Expr { return &ast.BasicLit{Kind: token.INT, Value: strconv.Itoa(n)} }

// rewriteSelect replaces a select with >= 2 communication cases by: seeded
// polling of the cases one at a time (non-blocking), then - if none was ready
// and there is no default - the original blocking select, then a switch that
// runs the original case bodies. Go's own choice among several ready cases is
// uniformly random and cannot be replayed; this one is a function of the run
// seed. Channel operands are evaluated once, as in the original.
func rewriteSelect(s *ast.SelectStmt, site mapSite, label string) ast.Stmt {
	if countComm(s) < 2 || len(site.Select) != len(s.Body.List) {
		return nil
	}
	id := strconv.Itoa(site.Line)
	caseVar := ident("verifcase" + id)
	var pre []ast.Stmt
	var pollCases, blockCases, bodyCases []ast.Stmt
	hasDefault := false
	ncomm := 0
	for k, cc := range s.Body.List {
		c := cc.(*ast.CommClause)
		ks := strconv.Itoa(k)
		if c.Comm == nil {
			hasDefault = true
			bodyCases = append(bodyCases, &ast.CaseClause{List: nil, Body: c.Body})
			continue
		}
		ncomm++
		chVar := ident("verifch" + id + "_" + ks)
		var comm func() ast.Stmt // builds a fresh comm statement for polling / blocking
		var prologue []ast.Stmt
		switch st := c.Comm.(type) {
		case *ast.SendStmt:
			pre = append(pre, &ast.AssignStmt{Lhs: []ast.Expr{chVar}, Tok: token.DEFINE, Rhs: []ast.Expr{st.Chan}})
			val := st.Value
			comm = func() ast.Stmt { return &ast.SendStmt{Chan: chVar, Value: val} }
		case *ast.ExprStmt:
			ue, ok := st.X.(*ast.UnaryExpr)
			if !ok || ue.Op != token.ARROW {
				return nil
			}
			pre = append(pre, &ast.AssignStmt{Lhs: []ast.Expr{chVar}, Tok: token.DEFINE, Rhs: []ast.Expr{ue.X}})
			comm = func() ast.Stmt { return &ast.ExprStmt{X: &ast.UnaryExpr{Op: token.ARROW, X: chVar}} }
		case *ast.AssignStmt:
			if len(st.Rhs) != 1 {
				return nil
			}
			ue, ok := st.Rhs[0].(*ast.UnaryExpr)
			if !ok || ue.Op != token.ARROW {
				return nil
			}
			et := site.Select[k]
			if et == "" || et == "?" || et == "-" {
				return nil
			}
			etx, err := parser.ParseExpr(et)
			if err != nil {
				return nil
			}
			pre = append(pre, &ast.AssignStmt{Lhs: []ast.Expr{chVar}, Tok: token.DEFINE, Rhs: []ast.Expr{ue.X}})
			vVar := ident("verifv" + id + "_" + ks)
			okVar := ident("verifok" + id + "_" + ks)
			pre = append(pre, &ast.DeclStmt{Decl: &ast.GenDecl{Tok: token.VAR, Specs: []ast.Spec{&ast.ValueSpec{Names: []*ast.Ident{vVar}, Type: etx}}}})
			pre = append(pre, &ast.DeclStmt{Decl: &ast.GenDecl{Tok: token.VAR, Specs: []ast.Spec{&ast.ValueSpec{Names: []*ast.Ident{okVar}, Type: ident("bool")}}}})
			pre = append(pre, &ast.AssignStmt{Lhs: []ast.Expr{ident("_"), ident("_")}, Tok: token.ASSIGN, Rhs: []ast.Expr{vVar, okVar}})
			comm = func() ast.Stmt {
				return &ast.AssignStmt{Lhs: []ast.Expr{vVar, okVar}, Tok: token.ASSIGN, Rhs: []ast.Expr{&ast.UnaryExpr{Op: token.ARROW, X: chVar}}}
			}
			// bind the original names
			temps := []ast.Expr{vVar, okVar}
			var lhs, rhs []ast.Expr
			for j, l := range st.Lhs {
				if idn, isID := l.(*ast.Ident); isID && idn.Name == "_" {
					continue
				}
				lhs = append(lhs, l)
				rhs = append(rhs, temps[j])
			}
			if len(lhs) > 0 {
				prologue = append(prologue, &ast.AssignStmt{Lhs: lhs, Tok: st.Tok, Rhs: rhs})
			}
		default:
			return nil
		}
		set := &ast.AssignStmt{Lhs: []ast.Expr{caseVar}, Tok: token.ASSIGN, Rhs: []ast.Expr{intLit(k)}}
		pollCases = append(pollCases, &ast.CaseClause{List: []ast.Expr{intLit(ncomm - 1)}, Body: []ast.Stmt{
			&ast.SelectStmt{Body: &ast.BlockStmt{List: []ast.Stmt{
				&ast.CommClause{Comm: comm(), Body: []ast.Stmt{set}},
				&ast.CommClause{Comm: nil},
			}}},
		}})
		blockCases = append(blockCases, &ast.CommClause{Comm: comm(), Body: []ast.Stmt{
			&ast.AssignStmt{Lhs: []ast.Expr{caseVar}, Tok: token.ASSIGN, Rhs: []ast.Expr{intLit(k)}}}})
		bodyCases = append(bodyCases, &ast.CaseClause{List: []ast.Expr{intLit(k)}, Body: append(prologue, c.Body...)})
	}
	iVar := ident("verifi" + id)
	out := append([]ast.Stmt{}, pre...)
	out = append(out, &ast.AssignStmt{Lhs: []ast.Expr{caseVar}, Tok: token.DEFINE, Rhs: []ast.Expr{&ast.UnaryExpr{Op: token.SUB, X: intLit(1)}}})
	out = append(out, &ast.RangeStmt{Key: ident("_"), Value: iVar, Tok: token.DEFINE,
		X: &ast.CallExpr{Fun: sel(rtName, "SelectOrder"), Args: []ast.Expr{intLit(ncomm)}},
		Body: &ast.BlockStmt{List: []ast.Stmt{
			&ast.SwitchStmt{Tag: iVar, Body: &ast.BlockStmt{List: pollCases}},
			&ast.IfStmt{Cond: &ast.BinaryExpr{X: caseVar, Op: token.GEQ, Y: intLit(0)}, Body: &ast.BlockStmt{List: []ast.Stmt{&ast.BranchStmt{Tok: token.BREAK}}}},
		}}})
	if !hasDefault {
		out = append(out, &ast.IfStmt{Cond: &ast.BinaryExpr{X: caseVar, Op: token.LSS, Y: intLit(0)},
			Body: &ast.BlockStmt{List: []ast.Stmt{&ast.SelectStmt{Body: &ast.BlockStmt{List: blockCases}}}}})
	}
	if !hasDefault {
		// keeps the switch a terminating statement whenever the original select was one
		bodyCases = append(bodyCases, &ast.CaseClause{List: nil, Body: []ast.Stmt{
			&ast.ExprStmt{X: &ast.CallExpr{Fun: ident("panic"), Args: []ast.Expr{&ast.BasicLit{Kind: token.STRING, Value: strconv.Quote("verif: rewritten select fell through")}}}}}})
	}
	var final ast.Stmt = &ast.SwitchStmt{Tag: caseVar, Body: &ast.BlockStmt{List: bodyCases}}
	if label != "" {
		final = &ast.LabeledStmt{Label: ident(label), Stmt: final}
	}
	out = append(out, final)
	return &ast.BlockStmt{List: out}
}

// harnessCondition evaluates an optional first-line directive of a harness file:
//
//	//verif:if-source <repo-relative file> contains <literal text>
//	//verif:if-not-source <repo-relative file> contains <literal text>
//
// so that a harness file which touches package internals (e.g. to reset a
// process-wide cache) is replaced by its fallback twin when a change to the
// repository removed those internals, instead of breaking the build.
func harnessCondition(path string) bool {
	b, err := os.ReadFile(path)
	if err != nil {
		return true
	}
	line := string(b)
	if i := strings.IndexByte(line, '\n'); i >= 0 {
		line = line[:i]
	}
	neg := false
	switch {
	case strings.HasPrefix(line, "//verif:if-source "):
		line = strings.TrimPrefix(line, "//verif:if-source ")
	case strings.HasPrefix(line, "//verif:if-not-source "):
		line = strings.TrimPrefix(line, "//verif:if-not-source ")
		neg = true
	default:
		return true
	}
	parts := strings.SplitN(line, " contains ", 2)
	if len(parts) != 2 {
		return true
	}
	src, err := os.ReadFile(filepath.Join(*repo, strings.TrimSpace(parts[0])))
	has := err == nil && strings.Contains(string(src), parts[1])
	return has != neg
}
