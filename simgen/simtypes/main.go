// simtypes type-loads the bfe working tree (golang.org/x/tools/go/packages)
// and lists every `range` statement whose operand has map type, with the key
// type printed the way the enclosing file can name it. simgen uses the list to
// replace Go's randomised map iteration by a seeded, replayable order.
package main

import (
	"encoding/json"
	"flag"
	"fmt"
	"go/ast"
	"go/types"
	"os"
	"path/filepath"
	"strconv"
	"strings"

	"golang.org/x/tools/go/packages"
)

type site struct {
	File    string `json:"file"`
	Line    int    `json:"line"`
	KeyType string `json:"key_type"`
	// for select statements: element type of each receive case ("" for send/default
	// cases or when the type cannot be named in that file, "-" when no value is bound)
	Select []string `json:"select,omitempty"`
	Kind   string   `json:"kind,omitempty"` // "" = map range, "select"
}

func main() {
	repo := flag.String("repo", "/repo", "")
	modfile := flag.String("modfile", "", "private copy of go.mod")
	out := flag.String("out", "", "")
	flag.Parse()
	cfg := &packages.Config{
		Mode:  packages.NeedName | packages.NeedFiles | packages.NeedSyntax | packages.NeedTypes | packages.NeedTypesInfo | packages.NeedImports | packages.NeedDeps,
		Dir:   *repo,
		Tests: true,
		Env:   append(os.Environ(), "GOFLAGS=-mod=mod -modfile="+*modfile),
	}
	pkgs, err := packages.Load(cfg, "./...")
	if err != nil {
		fmt.Fprintln(os.Stderr, "simtypes:", err)
		os.Exit(2)
	}
	nerr := 0
	seen := map[string]bool{}
	var sites []site
	for _, p := range pkgs {
		for _, e := range p.Errors {
			fmt.Fprintln(os.Stderr, "simtypes: type error:", e)
			nerr++
		}
		for _, f := range p.Syntax {
			fn := p.Fset.Position(f.Pos()).Filename
			rel, err := filepath.Rel(*repo, fn)
			if err != nil || strings.HasPrefix(rel, "..") || seen[rel] {
				continue
			}
			seen[rel] = true
			// import names usable in this file
			names := map[string]string{} // package path -> local name
			for _, im := range f.Imports {
				path, _ := strconv.Unquote(im.Path.Value)
				if im.Name != nil {
					if im.Name.Name != "_" && im.Name.Name != "." {
						names[path] = im.Name.Name
					}
					continue
				}
				if ip := p.Imports[path]; ip != nil {
					names[path] = ip.Name
				}
			}
			ok := true
			qual := func(q *types.Package) string {
				if q == p.Types || q.Path() == p.Types.Path() {
					return ""
				}
				if n, found := names[q.Path()]; found {
					return n
				}
				ok = false
				return q.Name()
			}
			ast.Inspect(f, func(n ast.Node) bool {
				if sel, isSel := n.(*ast.SelectStmt); isSel {
					var elems []string
					for _, cc := range sel.Body.List {
						c := cc.(*ast.CommClause)
						var recv ast.Expr
						binds := false
						switch st := c.Comm.(type) {
						case *ast.ExprStmt:
							recv = st.X
						case *ast.AssignStmt:
							if len(st.Rhs) == 1 {
								recv = st.Rhs[0]
								binds = true
							}
						}
						ue, isRecv := recv.(*ast.UnaryExpr)
						if recv == nil || !isRecv {
							elems = append(elems, "")
							continue
						}
						if !binds {
							elems = append(elems, "-")
							continue
						}
						tv, found := p.TypesInfo.Types[ue.X]
						if !found {
							elems = append(elems, "?")
							continue
						}
						ch, isCh := tv.Type.Underlying().(*types.Chan)
						if !isCh {
							elems = append(elems, "?")
							continue
						}
						ok = true
						es := types.TypeString(ch.Elem(), qual)
						if !ok {
							es = "?"
						}
						elems = append(elems, es)
					}
					sites = append(sites, site{File: rel, Line: p.Fset.Position(sel.Pos()).Line, Kind: "select", Select: elems})
					return true
				}
				r, isR := n.(*ast.RangeStmt)
				if !isR {
					return true
				}
				tv, found := p.TypesInfo.Types[r.X]
				if !found {
					return true
				}
				m, isMap := tv.Type.Underlying().(*types.Map)
				if !isMap {
					return true
				}
				ok = true
				ks := types.TypeString(m.Key(), qual)
				if !ok || strings.Contains(ks, "struct{") || strings.Contains(ks, "interface{") && ks != "interface{}" {
					ks = ""
				}
				sites = append(sites, site{File: rel, Line: p.Fset.Position(r.Pos()).Line, KeyType: ks})
				return true
			})
		}
	}
	if nerr > 0 {
		os.Exit(2)
	}
	b, _ := json.MarshalIndent(sites, "", " ")
	if err := os.WriteFile(*out, b, 0o644); err != nil {
		fmt.Fprintln(os.Stderr, err)
		os.Exit(2)
	}
	fmt.Printf("{\"map_ranges\":%d}\n", len(sites))
}
