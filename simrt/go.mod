module verif/simrt

go 1.26
