// Package href holds the small, strict HTTP/1.1 reference parsers used as
// oracles by the node and codec simulations. They are written from RFC 7230
// (not from bfe_http) and are part of the trusted base.
package href

import (
	"bytes"
	"errors"
	"fmt"
	"strconv"
	"strings"
)

// Field is one header field as it appeared on the wire.
type Field struct {
	Name  string // as sent
	Value string // OWS-trimmed
}

// Message is a parsed request or response.
type Message struct {
	// request
	Method, Target, Proto string
	// response
	Status int
	Reason string

	Fields   []Field
	Body     []byte
	Trailers []Field
	Chunked  bool
	// Framing: "none", "length", "chunked", "close"
	Framing string
	Raw     []byte
}

var (
	ErrIncomplete = errors.New("href: incomplete message")
	ErrMalformed  = errors.New("href: malformed message")
)

func malformed(f string, a ...interface{}) error {
	return fmt.Errorf("%w: %s", ErrMalformed, fmt.Sprintf(f, a...))
}

func isTchar(c byte) bool {
	switch {
	case c >= '0' && c <= '9', c >= 'a' && c <= 'z', c >= 'A' && c <= 'Z':
		return true
	}
	return strings.IndexByte("!#$%&'*+-.^_`|~", c) >= 0
}

func isToken(s string) bool {
	if s == "" {
		return false
	}
	for i := 0; i < len(s); i++ {
		if !isTchar(s[i]) {
			return false
		}
	}
	return true
}

// Get returns the values of a field (case-insensitive name) in wire order.
func (m *Message) Get(name string) []string {
	var r []string
	for _, f := range m.Fields {
		if strings.EqualFold(f.Name, name) {
			r = append(r, f.Value)
		}
	}
	return r
}

func (m *Message) Has(name string) bool { return len(m.Get(name)) > 0 }

// parseHead parses start line + fields up to and including the empty line.
// Returns the number of bytes consumed, or ErrIncomplete.
func parseHead(b []byte) (start string, fields []Field, n int, err error) {
	end := bytes.Index(b, []byte("\r\n\r\n"))
	if end < 0 {
		// a bare LF-terminated head is not accepted by this strict parser; decide
		// incomplete vs malformed: any bare LF makes it malformed
		if i := bytes.IndexByte(b, '\n'); i >= 0 && (i == 0 || b[i-1] != '\r') {
			return "", nil, 0, malformed("bare LF in message head")
		}
		return "", nil, 0, ErrIncomplete
	}
	head := string(b[:end])
	n = end + 4
	lines := strings.Split(head, "\r\n")
	start = lines[0]
	if strings.ContainsAny(head, "\x00") {
		return "", nil, 0, malformed("NUL in head")
	}
	for _, l := range lines {
		if strings.ContainsAny(l, "\r\n") {
			return "", nil, 0, malformed("bare CR or LF in head line %q", l)
		}
	}
	for _, l := range lines[1:] {
		if l == "" {
			return "", nil, 0, malformed("empty line inside head")
		}
		if l[0] == ' ' || l[0] == '\t' {
			return "", nil, 0, malformed("obs-fold")
		}
		i := strings.IndexByte(l, ':')
		if i <= 0 {
			return "", nil, 0, malformed("field line without name: %q", l)
		}
		name := l[:i]
		if !isToken(name) {
			return "", nil, 0, malformed("invalid field name %q", name)
		}
		val := strings.Trim(l[i+1:], " \t")
		for k := 0; k < len(val); k++ {
			if c := val[k]; (c < 0x20 && c != '\t') || c == 0x7f {
				return "", nil, 0, malformed("control byte in field value of %s", name)
			}
		}
		fields = append(fields, Field{name, val})
	}
	return start, fields, n, nil
}

// framing decides the body framing of a message from its fields.
func framing(fields []Field, isResponse bool) (kind string, length int64, err error) {
	var te, cl []string
	for _, f := range fields {
		if strings.EqualFold(f.Name, "Transfer-Encoding") {
			te = append(te, f.Value)
		}
		if strings.EqualFold(f.Name, "Content-Length") {
			cl = append(cl, f.Value)
		}
	}
	if len(te) > 0 {
		all := strings.ToLower(strings.Join(te, ","))
		var codings []string
		for _, c := range strings.Split(all, ",") {
			c = strings.TrimSpace(c)
			if c != "" {
				codings = append(codings, c)
			}
		}
		if len(codings) == 0 {
			return "", 0, malformed("empty Transfer-Encoding")
		}
		// Transfer-Encoding with Content-Length: RFC 7230 3.3.3 rule 3 - the transfer coding
		// overrides the length (the sender is at fault, the recipient may also reject; a
		// forwarder must drop the Content-Length). Framing: by the transfer coding.
		_ = cl
		if codings[len(codings)-1] == "chunked" {
			for _, c := range codings[:len(codings)-1] {
				if c == "chunked" {
					return "", 0, malformed("chunked applied twice")
				}
			}
			if len(codings) > 1 {
				return "", 0, malformed("transfer codings other than chunked are not supported by the reference")
			}
			return "chunked", 0, nil
		}
		if isResponse {
			return "close", 0, nil
		}
		return "", 0, malformed("request Transfer-Encoding not ending in chunked")
	}
	if len(cl) > 0 {
		var v int64 = -1
		for _, c := range cl {
			for _, part := range strings.Split(c, ",") {
				part = strings.TrimSpace(part)
				if part == "" || len(part) > 18 {
					return "", 0, malformed("bad Content-Length %q", c)
				}
				for i := 0; i < len(part); i++ {
					if part[i] < '0' || part[i] > '9' {
						return "", 0, malformed("bad Content-Length %q", c)
					}
				}
				x, _ := strconv.ParseInt(part, 10, 64)
				if v >= 0 && x != v {
					return "", 0, malformed("conflicting Content-Length values")
				}
				v = x
			}
		}
		return "length", v, nil
	}
	if isResponse {
		return "close", 0, nil
	}
	return "none", 0, nil
}

// DecodeChunked decodes a chunked body from b. It returns the payload, the
// trailer fields and the number of bytes consumed; ErrIncomplete if b ends
// before the terminating empty line.
func DecodeChunked(b []byte) (body []byte, trailers []Field, n int, err error) {
	pos := 0
	for {
		// the size line ends at LF; a preceding CR belongs to the terminator. (A bare LF
		// is tolerated: it does not change which bytes are body bytes.)
		i := bytes.IndexByte(b[pos:], '\n')
		if i < 0 {
			return nil, nil, 0, ErrIncomplete
		}
		line := strings.TrimSuffix(string(b[pos:pos+i]), "\r")
		pos += i + 1
		sz := line
		if k := strings.IndexByte(line, ';'); k >= 0 {
			sz = line[:k]
			// chunk extensions: tolerated when they contain no control bytes
			for x := k; x < len(line); x++ {
				if c := line[x]; (c < 0x20 && c != '\t') || c == 0x7f {
					return nil, nil, 0, malformed("control byte in chunk extension")
				}
			}
		}
		sz = strings.TrimRight(sz, " \t") // BWS before ';' tolerated
		if sz == "" || len(sz) > 15 {
			return nil, nil, 0, malformed("bad chunk size %q", line)
		}
		var size int64
		for x := 0; x < len(sz); x++ {
			c := sz[x]
			var d byte
			switch {
			case c >= '0' && c <= '9':
				d = c - '0'
			case c >= 'a' && c <= 'f':
				d = c - 'a' + 10
			case c >= 'A' && c <= 'F':
				d = c - 'A' + 10
			default:
				return nil, nil, 0, malformed("bad chunk size %q", line)
			}
			size = size<<4 | int64(d)
		}
		if size == 0 {
			break
		}
		if int64(len(b)-pos) < size+2 {
			return nil, nil, 0, ErrIncomplete
		}
		body = append(body, b[pos:pos+int(size)]...)
		pos += int(size)
		if b[pos] != '\r' || b[pos+1] != '\n' {
			return nil, nil, 0, malformed("chunk data not followed by CRLF")
		}
		pos += 2
	}
	// trailer section
	for {
		i := bytes.Index(b[pos:], []byte("\r\n"))
		if i < 0 {
			return nil, nil, 0, ErrIncomplete
		}
		line := string(b[pos : pos+i])
		pos += i + 2
		if line == "" {
			return body, trailers, pos, nil
		}
		k := strings.IndexByte(line, ':')
		if k <= 0 || !isToken(line[:k]) {
			return nil, nil, 0, malformed("bad trailer line %q", line)
		}
		trailers = append(trailers, Field{line[:k], strings.Trim(line[k+1:], " \t")})
	}
}

// ParseRequest parses one request from the front of b. n is the number of
// bytes it occupies.
func ParseRequest(b []byte) (m *Message, n int, err error) {
	start, fields, hn, err := parseHead(b)
	if err != nil {
		return nil, 0, err
	}
	parts := strings.Split(start, " ")
	if len(parts) != 3 || !isToken(parts[0]) || parts[1] == "" {
		return nil, 0, malformed("bad request line %q", start)
	}
	if parts[2] != "HTTP/1.1" && parts[2] != "HTTP/1.0" {
		return nil, 0, malformed("bad version %q", parts[2])
	}
	for i := 0; i < len(parts[1]); i++ {
		if c := parts[1][i]; c <= 0x20 || c == 0x7f {
			return nil, 0, malformed("control/space byte in request target")
		}
	}
	m = &Message{Method: parts[0], Target: parts[1], Proto: parts[2], Fields: fields}
	kind, length, err := framing(fields, false)
	if err != nil {
		return nil, 0, err
	}
	m.Framing = kind
	switch kind {
	case "none":
		n = hn
	case "length":
		if int64(len(b)-hn) < length {
			return nil, 0, ErrIncomplete
		}
		m.Body = b[hn : hn+int(length)]
		n = hn + int(length)
	case "chunked":
		body, tr, cn, err := DecodeChunked(b[hn:])
		if err != nil {
			return nil, 0, err
		}
		m.Body, m.Trailers, m.Chunked = body, tr, true
		n = hn + cn
	}
	m.Raw = b[:n]
	return m, n, nil
}

// ParseResponse parses one response from the front of b. reqMethod decides
// bodyless responses to HEAD; eof tells that the connection has ended (needed
// for close-delimited bodies).
func ParseResponse(b []byte, reqMethod string, eof bool) (m *Message, n int, err error) {
	start, fields, hn, err := parseHead(b)
	if err != nil {
		return nil, 0, err
	}
	if len(start) < 12 || !strings.HasPrefix(start, "HTTP/1.") || start[8] != ' ' {
		return nil, 0, malformed("bad status line %q", start)
	}
	code, cerr := strconv.Atoi(start[9:12])
	if cerr != nil || code < 100 || (len(start) > 12 && start[12] != ' ') {
		return nil, 0, malformed("bad status line %q", start)
	}
	m = &Message{Proto: start[:8], Status: code, Fields: fields}
	if len(start) > 13 {
		m.Reason = start[13:]
	}
	if reqMethod == "HEAD" || code/100 == 1 || code == 204 || code == 304 {
		m.Framing = "none"
		m.Raw = b[:hn]
		return m, hn, nil
	}
	kind, length, err := framing(fields, true)
	if err != nil {
		return nil, 0, err
	}
	if kind == "chunked" && m.Proto != "HTTP/1.1" {
		// RFC 7230 3.3.1: a transfer coding must not be sent in an HTTP/1.0 message; a 1.0
		// recipient would read the chunk framing as body bytes
		return nil, 0, malformed("Transfer-Encoding in a %s response", m.Proto)
	}
	m.Framing = kind
	switch kind {
	case "length":
		if int64(len(b)-hn) < length {
			return nil, 0, ErrIncomplete
		}
		m.Body = b[hn : hn+int(length)]
		n = hn + int(length)
	case "chunked":
		body, tr, cn, err := DecodeChunked(b[hn:])
		if err != nil {
			return nil, 0, err
		}
		m.Body, m.Trailers, m.Chunked = body, tr, true
		n = hn + cn
	case "close":
		if !eof {
			return nil, 0, ErrIncomplete
		}
		m.Body = b[hn:]
		n = len(b)
	}
	m.Raw = b[:n]
	return m, n, nil
}
