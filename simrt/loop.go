package simrt

import (
	"math/rand"
	"sync/atomic"
	"testing/synctest"
	"time"
)

// StateHash lets a harness report a hash of the component state at a quiescent
// point ("distinct states reached").
//
//go:norace
func (s *Sim) StateHash(h uint64) {
	s.lock()
	if len(s.stateHashes) < 4096 {
		s.stateHashes = append(s.stateHashes, h)
	}
	s.unlock()
}

// SetSticky selects the scheduling strategy: den==0 uniform, otherwise switch
// away from the running task with probability 1/den.
//
//go:norace
func (s *Sim) SetSticky(den int) { s.stickyDen = den }

//go:norace
func (s *Sim) loop(root func(s *Sim)) {
	// the scheduler goroutine never touches BFE memory; all of its channel
	// traffic and bookkeeping is hidden from the race detector
	rand.Seed(int64(s.Seed)) // BFE uses the global math/rand source in a few places
	raceDisable()
	defer raceEnable()
	s.start = time.Now()
	s.arrive = make(chan struct{}, 1)
	s.rootCh = make(chan struct{})
	curSim.Store(s)
	atomic.AddInt32(&activeSims, 1)
	rt := s.newTask(nil, "root", nil)
	raceEnable() // the root task must be ordered after everything the test set up
	s.startTask(rt, func() {
		defer func() {
			close(s.rootCh) // visible to the race detector: orders the harness's writes before the test goroutine's reads
			s.lock()
			s.rootDone = true
			s.unlock()
		}()
		root(s)
	})
	raceDisable()
	for {
		synctest.Wait()
		s.lock()
		done := s.rootDone
		s.unlock()
		if done {
			break
		}
		en, _, live := s.enabledTasks()
		if len(en) == 0 {
			if live == 0 {
				break
			}
			// nothing runnable: let simulated time pass until something parks
			// again, or give up after IdleLimit of simulated silence.
			select {
			case <-s.arrive:
				continue
			default:
			}
			tm := time.NewTimer(s.IdleLimit)
			select {
			case <-s.arrive:
				tm.Stop()
				continue
			case <-tm.C:
				s.Outcome = "stuck"
			}
			break
		}
		s.Step++
		if s.Step > s.MaxSteps {
			s.Outcome = "max_steps"
			break
		}
		t := s.choose(en)
		if t != s.last {
			s.Switches++
		}
		s.last = t
		if t.grant != nil {
			t.grant()
		}
		s.lock()
		s.schedHash = fnv64(fnvs(fnv64(s.schedHash, uint64(t.op)), t.Name), uint64(t.obj))
		s.emitLocked(t, t.op.String(), t.obj, "")
		t.enabled, t.grant = nil, nil
		atomic.StoreInt32(&t.state, stRunning)
		s.unlock()
		t.wake <- struct{}{}
		if len(s.invariants) > 0 {
			synctest.Wait()
			for _, inv := range s.invariants {
				if err := inv(); err != nil {
					// "C07.nonnegative: text" -> clause C07.nonnegative, key invariant-C07.nonnegative
					msg := err.Error()
					clause := "invariant"
					for i := 0; i < len(msg) && i < 40; i++ {
						if msg[i] == ':' {
							clause = msg[:i]
							break
						}
					}
					s.failRaw(clause, "invariant-"+clause, msg)
					s.invariants = nil
					break
				}
			}
		}
		if len(s.failures) > 0 && s.StopOnFail {
			break
		}
	}
	s.simEnd = time.Since(s.start)
	if s.rootDone {
		raceEnable()
		<-s.rootCh
		raceDisable()
	}
	s.kill()
}

// kill tears down every remaining task: each is woken with the killed flag and
// leaves through runtime.Goexit; sim ops met by its deferred calls are no-ops.
//
//go:norace
func (s *Sim) kill() {
	s.lock()
	s.killing = true
	ts := append([]*Task(nil), s.tasks...)
	s.unlock()
	for _, t := range ts {
		t.killed.Store(true)
	}
	for _, t := range ts {
		if atomic.LoadInt32(&t.state) == stParked {
			select {
			case t.wake <- struct{}{}:
			default:
			}
		}
	}
	synctest.Wait()
}
