package simrt

import (
	"reflect"
	"sort"
	"sync/atomic"
)

// UncontrolledMapRanges counts MapKeys calls whose key type cannot be sorted
// canonically (iteration order then stays the runtime's).
var UncontrolledMapRanges int64

// SetMapOrder selects the run's map-iteration order: 0 = canonical (sorted
// keys), k>0 = a pseudo-random permutation stream derived from (run seed, k).
//
//go:norace
func (s *Sim) SetMapOrder(k int) {
	s.mapSalt = uint64(k)
	s.mapState = Mix(s.Seed, 0x6d61706f72646572+uint64(k))
}

// MapKeys is what `for k, v := range m` is rewritten to iterate over: the keys
// of m in an order that is a function of the run seed only. The result is a
// []K for the map's key type K.
//
//go:norace
func MapKeys(m interface{}) interface{} {
	v := reflect.ValueOf(m)
	keys := v.MapKeys()
	kt := v.Type().Key()
	out := reflect.MakeSlice(reflect.SliceOf(kt), len(keys), len(keys))
	sortable := true
	switch kt.Kind() {
	case reflect.String:
		sort.Slice(keys, func(i, j int) bool { return keys[i].String() < keys[j].String() })
	case reflect.Int, reflect.Int8, reflect.Int16, reflect.Int32, reflect.Int64:
		sort.Slice(keys, func(i, j int) bool { return keys[i].Int() < keys[j].Int() })
	case reflect.Uint, reflect.Uint8, reflect.Uint16, reflect.Uint32, reflect.Uint64, reflect.Uintptr:
		sort.Slice(keys, func(i, j int) bool { return keys[i].Uint() < keys[j].Uint() })
	case reflect.Float32, reflect.Float64:
		sort.Slice(keys, func(i, j int) bool { return keys[i].Float() < keys[j].Float() })
	case reflect.Bool:
		sort.Slice(keys, func(i, j int) bool { return !keys[i].Bool() && keys[j].Bool() })
	default:
		sortable = false
		atomic.AddInt64(&UncontrolledMapRanges, 1)
	}
	if sortable && len(keys) > 1 {
		if t := Current(); t != nil && t.sim.mapSalt != 0 {
			s := t.sim
			s.lock()
			for i := len(keys) - 1; i > 0; i-- {
				j := int(splitmix(&s.mapState) % uint64(i+1))
				keys[i], keys[j] = keys[j], keys[i]
			}
			s.mapPerms++
			s.unlock()
		}
	}
	for i, k := range keys {
		out.Index(i).Set(k)
	}
	return out.Interface()
}

// SetSelectOrder selects how rewritten select statements poll their cases:
// 0 = in source order, k>0 = starting at a position drawn from a stream derived
// from (run seed, k).
//
//go:norace
func (s *Sim) SetSelectOrder(k int) {
	s.selSalt = uint64(k)
	s.selState = Mix(s.Seed, 0x73656c6563740000+uint64(k))
}

// SetSelectYield makes every rewritten select statement a park point.
//
//go:norace
func (s *Sim) SetSelectYield(on bool) { s.selYield = on }

var identityOrders = func() [][]int {
	r := make([][]int, 17)
	for n := range r {
		r[n] = make([]int, n)
		for i := range r[n] {
			r[n][i] = i
		}
	}
	return r
}()

// SelectOrder is called by rewritten select statements (see simgen): the order
// in which the n communication cases are polled.
//
//go:norace
func SelectOrder(n int) []int {
	if t := Current(); t != nil && t.sim.selYield && !t.killed.Load() {
		// the select itself is a scheduling point: everything that could make one of its cases
		// ready (or a second one as well) may run first, as the run's tape decides
		t.Park(OpYield, 0, nil, nil)
	}
	if n < len(identityOrders) {
		if t := Current(); t != nil && t.sim.selSalt != 0 && n > 1 {
			s := t.sim
			s.lock()
			start := int(splitmix(&s.selState) % uint64(n))
			s.unlock()
			if start != 0 {
				o := make([]int, n)
				for i := range o {
					o[i] = (start + i) % n
				}
				return o
			}
		}
		return identityOrders[n]
	}
	o := make([]int, n)
	for i := range o {
		o[i] = i
	}
	return o
}
