//go:build !race

package simrt

const RaceBuild = false

func raceDisable() {}
func raceEnable()  {}
