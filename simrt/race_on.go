//go:build race

package simrt

import "runtime"

// RaceBuild reports whether the binary was built with -race.
const RaceBuild = true

func raceDisable() { runtime.RaceDisable() }
func raceEnable()  { runtime.RaceEnable() }
