// Package simrt is the deterministic-simulation runtime that rewritten BFE code
// and the harnesses link against: single-runner scheduler driven by a choice
// tape, task registry, event log and probes. One run = one testing/synctest
// bubble (fake clock, quiescence detection).
package simrt

import (
	"bytes"
	"fmt"
	"reflect"
	"runtime"
	"runtime/debug"
	"sort"
	"strconv"
	"sync"
	"sync/atomic"
	"time"
)

// OpKind names the kind of sim op a task is parked at.
type OpKind uint8

const (
	OpStart OpKind = iota
	OpYield
	OpLock
	OpRLock
	OpUnlock
	OpRUnlock
	OpCondWait
	OpCondRelock
	OpJoin
	OpNetRead
	OpNetWrite
	OpNetDial
	OpNetAccept
	OpNetClose
	OpNetDeliver
	OpSleep
	OpCustom
	OpExit
)

var opNames = [...]string{"start", "yield", "lock", "rlock", "unlock", "runlock", "condwait", "condrelock", "join",
	"read", "write", "dial", "accept", "close", "deliver", "sleep", "custom", "exit"}

//go:norace
func (k OpKind) String() string { return opNames[k] }

const (
	stRunning int32 = iota
	stParked
	stDone
)

// Task is a goroutine known to the scheduler.
type Task struct {
	sim     *Sim
	Name    string
	Entry   string // spawn-site description (function name) for oracles that count tasks by entry
	Arg     interface{}
	goid    int64
	wake    chan struct{}
	doneCh  chan struct{} // closed at exit, visibly to the race detector (Join = real happens-before)
	state   int32
	op      OpKind
	obj     int
	enabled func() bool
	grant   func()
	spawnN  int
	Steps   int
	killed  atomic.Bool
	exiting bool
	prio    int
	daemon  bool
}

//go:norace
func (t *Task) Done() bool { return atomic.LoadInt32(&t.state) == stDone }

//go:norace
func (t *Task) Sim() *Sim { return t.sim }

// Event is one entry of the run's history.
type Event struct {
	Seq    uint64
	At     time.Duration
	Task   string
	Kind   string
	Obj    int
	Detail string
}

// Failure is a violated oracle clause.
type Failure struct {
	Clause string
	Key    string
	Msg    string
	Step   int
	Seq    uint64
}

// Sim is one simulated run.
type Sim struct {
	Tape *Tape
	Seed uint64

	mu       sync.Mutex // real; guards bookkeeping touched by concurrently running tasks
	gen      uint64
	tasks    []*Task
	arrive   chan struct{}
	rootDone bool
	rootCh   chan struct{}
	start    time.Time

	// strategy
	stickyDen int // switch with probability 1/stickyDen (0 = uniform)
	last      *Task

	MaxSteps  int
	IdleLimit time.Duration
	Step      int
	Outcome   string // "", "max_steps", "stuck"

	seq       uint64
	hash      uint64 // trace hash (all events)
	schedHash uint64 // (task,op,obj) only
	KeepLog   bool
	Log       []Event
	logCap    int
	selYield  bool

	failures     []Failure
	invariants   []func() error
	Probes       *Counters
	Faults       *Counters
	Switches     int
	OracleN      int
	objN         int
	lazyN        int
	SpuriousWake bool

	killing     bool
	mapSalt     uint64
	mapState    uint64
	mapPerms    int
	selSalt     uint64
	selState    uint64
	StopOnFail  bool
	simEnd      time.Duration
	stateHashes []uint64
	Sample      interface{}            // harness-provided description of this run (config, first ops)
	opNotes     []string               // the first workload operations and faults of the run, kept for the evidence sample
	Data        map[string]interface{} // harness scratch
}

var (
	regMu      sync.Mutex
	regTab     []*Task // live tasks of the process (few); plain slice on purpose, see Counters
	activeSims int32
	genCounter uint64
	curSim     atomic.Pointer[Sim]
)

//go:norace
func goid() int64 {
	var buf [64]byte
	n := runtime.Stack(buf[:], false)
	// "goroutine 123 ["
	b := buf[10:n]
	i := bytes.IndexByte(b, ' ')
	id, _ := strconv.ParseInt(string(b[:i]), 10, 64)
	return id
}

// Current returns the calling goroutine's task, or nil when no simulation is
// active or the goroutine is not part of it.
//
//go:norace
func Current() *Task {
	raceDisable()
	defer raceEnable()
	if atomic.LoadInt32(&activeSims) == 0 {
		return nil
	}
	return regLookup(goid())
}

//go:norace
func regLookup(id int64) *Task {
	regMu.Lock()
	defer regMu.Unlock()
	for _, t := range regTab {
		if t.goid == id {
			return t
		}
	}
	return nil
}

//go:norace
func regStore(t *Task) {
	regMu.Lock()
	regTab = append(regTab, t)
	regMu.Unlock()
}

//go:norace
func regDelete(t *Task) {
	regMu.Lock()
	for i, x := range regTab {
		if x == t {
			regTab[i] = regTab[len(regTab)-1]
			regTab[len(regTab)-1] = nil
			regTab = regTab[:len(regTab)-1]
			break
		}
	}
	regMu.Unlock()
}

// CurrentOrLazy is Current, but a goroutine the generator did not see being
// spawned (timer callbacks, library goroutines) that reaches a sim op inside
// an active simulation is registered on the spot.
//
//go:norace
func CurrentOrLazy() *Task {
	raceDisable()
	defer raceEnable()
	if atomic.LoadInt32(&activeSims) == 0 {
		return nil
	}
	id := goid()
	if t := regLookup(id); t != nil {
		return t
	}
	s := curSim.Load()
	if s == nil || s.killing {
		return nil
	}
	s.lock()
	s.lazyN++
	t := &Task{sim: s, Name: "z" + pad3(s.lazyN), Entry: "lazy", goid: id, wake: make(chan struct{}, 1), daemon: true}
	s.tasks = append(s.tasks, t)
	s.unlock()
	regStore(t)
	return t
}

//go:norace
func fnv64(h uint64, v uint64) uint64 {
	for i := 0; i < 8; i++ {
		h ^= v & 0xff
		h *= 1099511628211
		v >>= 8
	}
	return h
}

//go:norace
func fnvs(h uint64, s string) uint64 {
	for i := 0; i < len(s); i++ {
		h ^= uint64(s[i])
		h *= 1099511628211
	}
	return h
}

// NewObj hands out a per-run object id (first-use order, deterministic).
//
//go:norace
func (s *Sim) NewObj() int {
	s.lock()
	s.objN++
	n := s.objN
	s.unlock()
	return n
}

// Gen is the run generation, used by sim objects to reset state left over by
// an earlier run in the same process.
//
//go:norace
func (s *Sim) Gen() uint64 { return s.gen }

// Lock/Unlock expose the bookkeeping mutex to simsync/simnet.
//
//go:norace
func (s *Sim) BkLock() { s.lock() }

//go:norace
func (s *Sim) BkUnlock() { s.unlock() }

// lock/unlock guard the simulator's own bookkeeping. The race detector must not
// see this mutex (nor the park/wake channels): every sim op takes it, so it
// would order all tasks and hide BFE's own missing synchronisation. Sync events
// are therefore ignored while it is held (runtime.RaceDisable nests).
//
//go:norace
func (s *Sim) lock() { raceDisable(); s.mu.Lock() }

//go:norace
func (s *Sim) unlock() { s.mu.Unlock(); raceEnable() }

// Now is simulated time since the start of the run.
//
//go:norace
func (s *Sim) Now() time.Duration { return time.Since(s.start) }

// Emit appends an event. It never draws from the tape and never reads a real clock.
//
//go:norace
func (s *Sim) Emit(task *Task, kind string, obj int, detail string) uint64 {
	s.lock()
	seq := s.emitLocked(task, kind, obj, detail)
	s.unlock()
	return seq
}

//go:norace
func (s *Sim) emitLocked(task *Task, kind string, obj int, detail string) uint64 {
	s.seq++
	name := ""
	if task != nil {
		name = task.Name
	}
	at := time.Since(s.start)
	h := s.hash
	h = fnvs(h, name)
	h = fnvs(h, kind)
	h = fnv64(h, uint64(obj))
	h = fnvs(h, detail)
	h = fnv64(h, uint64(at))
	s.hash = h
	if kind == "op" || kind == "fault" {
		// workload operations and injected faults are part of what makes two runs distinct
		s.schedHash = fnvs(fnvs(s.schedHash, kind), detail)
		if len(s.opNotes) < 14 && (kind == "op" || len(s.opNotes) == 0 || s.opNotes[len(s.opNotes)-1] != "fault: "+detail) {
			d := detail
			if len(d) > 400 {
				d = d[:400] + "..."
			}
			s.opNotes = append(s.opNotes, kind+": "+d)
		}
	}
	if s.KeepLog && len(s.Log) < s.logCap {
		s.Log = append(s.Log, Event{s.seq, at, name, kind, obj, detail})
	}
	return s.seq
}

// sample: what the harness recorded about this run, or else its first operations and faults.
//
//go:norace
func (s *Sim) sample() interface{} {
	if s.Sample != nil {
		return s.Sample
	}
	if len(s.opNotes) == 0 {
		return nil
	}
	return map[string]interface{}{"first_operations_and_faults": s.opNotes}
}

// Seq returns the current global event sequence number.
//
//go:norace
func (s *Sim) Seq() uint64 { s.lock(); defer s.unlock(); return s.seq }

// Note records a harness-level observation in the event log.
//
//go:norace
func (s *Sim) Note(kind, detail string) uint64 { return s.Emit(Current(), kind, 0, detail) }

// Probe counts that a rare condition was reached.
//
//go:norace
func (s *Sim) Probe(name string) {
	s.lock()
	s.Probes.Add(name, 1)
	s.unlock()
}

// Fault counts that a fault of the given kind actually fired.
//
//go:norace
func (s *Sim) Fault(kind string) {
	s.lock()
	s.Faults.Add(kind, 1)
	s.emitLocked(nil, "fault", 0, kind)
	s.unlock()
}

// Checked counts oracle evaluations.
//
//go:norace
func (s *Sim) Checked(n int) { s.lock(); s.OracleN += n; s.unlock() }

// Fail records a violated clause. The run continues until its root returns;
// harness loops should poll Failed().
//
//go:norace
func (s *Sim) Fail(clause, format string, args ...interface{}) {
	s.FailK(clause, "", format, args...)
}

// FailK is Fail with a finding key that identifies the specific defect (used
// to match entries of known_findings.jsonl and to keep shrinking on the same bug).
//
//go:norace
func (s *Sim) FailK(clause, key, format string, args ...interface{}) {
	s.failRaw(clause, key, fmt.Sprintf(format, args...))
}

// failRaw records a failure without formatting (usable on the scheduler
// goroutine, where fmt's pooled printers must not be touched).
//
//go:norace
func (s *Sim) failRaw(clause, key, msg string) {
	s.lock()
	s.failures = append(s.failures, Failure{clause, key, msg, s.Step, s.seq})
	// the message may carry a stack trace (goroutine ids, addresses): keep it out of the trace hash
	h := s.hash
	s.emitLocked(nil, "FAIL", 0, clause+": "+msg)
	s.hash = fnvs(fnvs(h, clause), key)
	s.unlock()
}

//go:norace
func (s *Sim) Failed() bool { s.lock(); defer s.unlock(); return len(s.failures) > 0 }

//go:norace
func (s *Sim) Failures() []Failure {
	s.lock()
	defer s.unlock()
	return append([]Failure(nil), s.failures...)
}

//go:norace
func (s *Sim) TraceHash() uint64 { return s.hash }

//go:norace
func (s *Sim) ScheduleHash() uint64 { return s.schedHash }

//go:norace
func (s *Sim) Tasks() []*Task {
	s.lock()
	defer s.unlock()
	return append([]*Task(nil), s.tasks...)
}

// SeqNoLock / TasksNoLock are for invariants, which run on the scheduler
// goroutine at quiescence (nothing else is running).
//
//go:norace
func (s *Sim) SeqNoLock() uint64 { return s.seq }

//go:norace
func (s *Sim) TasksNoLock() []*Task { return s.tasks }

// Invariant registers a predicate evaluated by the scheduler after every step,
// with every task parked.
//
//go:norace
func (s *Sim) Invariant(f func() error) { s.invariants = append(s.invariants, f) }

//go:norace
func (s *Sim) newTask(parent *Task, entry string, arg interface{}) *Task {
	t := &Task{sim: s, Entry: entry, Arg: arg, wake: make(chan struct{}, 1), doneCh: make(chan struct{})}
	s.lock()
	if parent == nil {
		t.Name = "r"
	} else {
		parent.spawnN++
		t.Name = parent.Name + "." + pad3(parent.spawnN)[1:]
	}
	t.state = stParked
	t.op = OpStart
	s.tasks = append(s.tasks, t)
	s.unlock()
	return t
}

//go:norace
func (s *Sim) startTask(t *Task, fn func()) {
	go func() {
		exited := false
		raceDisable()
		t.goid = goid()
		regStore(t)
		defer func() {
			if r := recover(); r != nil && !t.killed.Load() {
				// format outside the hidden region (fmt's printer pool is real sync)
				s.Fail("panic", "task %s (%s) panicked: %v\n%s", t.Name, t.Entry, r, trimStack(debug.Stack()))
			}
			close(t.doneCh)
			raceDisable()
			regDelete(t)
			s.lock()
			atomic.StoreInt32(&t.state, stDone)
			if !s.killing && !exited {
				s.emitLocked(t, "exit", 0, "")
			}
			s.unlock()
			s.signal()
		}()
		s.signal()
		<-t.wake // born parked
		if t.killed.Load() {
			return
		}
		atomic.StoreInt32(&t.state, stRunning)
		raceEnable()
		fn()
		// the end of a task is a scheduling point: tasks released together (a closed channel,
		// a broadcast) would otherwise record their exits in the Go runtime's order
		if !t.killed.Load() {
			exited = true
			t.Park(OpExit, 0, nil, nil)
		}
	}()
}

//go:norace
func trimStack(b []byte) string {
	if len(b) > 6000 {
		b = b[:6000]
	}
	return string(b)
}

//go:norace
func (s *Sim) signal() {
	select {
	case s.arrive <- struct{}{}:
	default:
	}
}

// Draw / Chance draw from the run's tape under the bookkeeping lock (for sim
// objects used by several tasks).
//
//go:norace
func (s *Sim) Draw(n int, label string) int {
	s.lock()
	defer s.unlock()
	return s.Tape.Draw(n, label)
}

//go:norace
func (s *Sim) Chance(num, den int, label string) bool {
	s.lock()
	defer s.unlock()
	return s.Tape.Chance(num, den, label)
}

// Kick makes the scheduler re-evaluate enabledness (used by simnet when bytes,
// closes or deadlines arrive).
//
//go:norace
func (s *Sim) Kick() { s.signal() }

// Go starts fn as a new task of the current simulation (or as a plain
// goroutine when the caller is not part of one).
//
//go:norace
func Go(fn func()) *Task { return GoNamed("", nil, fn) }

// GoNamed is Go with an entry description used by oracles.
//
//go:norace
func GoNamed(entry string, arg interface{}, fn func()) *Task {
	p := CurrentOrLazy()
	if p == nil || p.killed.Load() {
		go fn()
		return nil
	}
	if entry == "" {
		entry = funcName(fn)
	}
	t := p.sim.newTask(p, entry, arg)
	p.sim.Emit(p, "spawn", 0, t.Name+" "+entry)
	p.sim.startTask(t, fn)
	return t
}

//go:norace
func funcName(f interface{}) string {
	pc := reflect.ValueOf(f).Pointer()
	if fn := runtime.FuncForPC(pc); fn != nil {
		return fn.Name()
	}
	return "?"
}

// GoCall is what `go f(args...)` is rewritten to: f and args are evaluated at
// the go statement, the call happens in a new task.
//
//go:norace
func GoCall(f interface{}, args ...interface{}) {
	fv := reflect.ValueOf(f)
	ft := fv.Type()
	in := make([]reflect.Value, len(args))
	for i, a := range args {
		if a == nil {
			var pt reflect.Type
			if ft.IsVariadic() && i >= ft.NumIn()-1 {
				pt = ft.In(ft.NumIn() - 1).Elem()
			} else {
				pt = ft.In(i)
			}
			in[i] = reflect.Zero(pt)
		} else {
			in[i] = reflect.ValueOf(a)
			if !ft.IsVariadic() && i < ft.NumIn() && in[i].Type() != ft.In(i) && ft.In(i).Kind() != reflect.Interface &&
				in[i].Type().ConvertibleTo(ft.In(i)) {
				in[i] = in[i].Convert(ft.In(i)) // untyped constant argument
			}
		}
	}
	var first interface{}
	if len(args) > 0 {
		first = args[0]
	}
	GoNamed(funcName(f), first, func() { fv.Call(in) })
}

// GoCallSlice is GoCall for `go f(a, rest...)`.
//
//go:norace
func GoCallSlice(f interface{}, args ...interface{}) {
	fv := reflect.ValueOf(f)
	in := make([]reflect.Value, len(args))
	for i, a := range args {
		if a == nil {
			in[i] = reflect.Zero(fv.Type().In(i))
		} else {
			in[i] = reflect.ValueOf(a)
		}
	}
	GoNamed(funcName(f), nil, func() { fv.CallSlice(in) })
}

// Park blocks the calling task at a sim op until the scheduler selects it.
// enabled (nil = always) is evaluated by the scheduler at quiescence; grant
// (may be nil) is run by the scheduler when it selects the task.
//
//go:norace
func (t *Task) Park(kind OpKind, obj int, enabled func() bool, grant func()) {
	raceDisable()
	if t.killed.Load() {
		raceEnable()
		t.die()
		return
	}
	s := t.sim
	s.lock()
	t.op, t.obj, t.enabled, t.grant = kind, obj, enabled, grant
	atomic.StoreInt32(&t.state, stParked)
	s.unlock()
	s.signal()
	<-t.wake
	if t.killed.Load() {
		raceEnable()
		t.die()
		return
	}
	atomic.StoreInt32(&t.state, stRunning)
	t.Steps++
	raceEnable()
}

//go:norace
func (t *Task) die() {
	if t.exiting {
		return
	}
	t.exiting = true
	runtime.Goexit()
}

// Killed reports that the run is over and this task is being torn down: sim
// ops must return at once without parking.
//
//go:norace
func (t *Task) Killed() bool { return t.killed.Load() }

// Yield is a scheduling point for harness code.
//
//go:norace
func Yield() {
	if t := Current(); t != nil {
		t.Park(OpYield, 0, nil, nil)
	}
}

// Join parks until all given tasks are done.
//
//go:norace
func Join(ts ...*Task) {
	t := Current()
	if t == nil {
		panic("simrt.Join outside simulation")
	}
	t.Park(OpJoin, 0, joinReq(ts).done, nil)
	if t.killed.Load() {
		return
	}
	// like WaitGroup.Wait: everything the joined tasks did happens-before the return
	for _, x := range ts {
		if x != nil && x.doneCh != nil {
			<-x.doneCh
		}
	}
}

type joinReq []*Task

//go:norace
func (ts joinReq) done() bool {
	for _, x := range ts {
		if x != nil && !x.Done() {
			return false
		}
	}
	return true
}

// WaitUntil parks until pred holds (evaluated at quiescence).
//
//go:norace
func WaitUntil(pred func() bool) {
	t := Current()
	if t == nil {
		panic("simrt.WaitUntil outside simulation")
	}
	t.Park(OpCustom, 0, pred, nil)
}

// Sleep sleeps in simulated time; it is a park point on return, so the wake-up
// order of simultaneous sleepers is a scheduler decision.
//
//go:norace
func Sleep(d time.Duration) {
	time.Sleep(d)
	if t := Current(); t != nil {
		t.Park(OpSleep, 0, nil, nil)
	}
}

// parkedSummary lists the live tasks and what they are parked at.
//
//go:norace
func (s *Sim) parkedSummary() string {
	out := ""
	for _, t := range s.tasks {
		st := atomic.LoadInt32(&t.state)
		if st == stDone {
			continue
		}
		if st == stParked {
			out += fmt.Sprintf("[%s %s parked at %s obj=%d steps=%d] ", t.Name, t.Entry, t.op, t.obj, t.Steps)
		} else {
			out += fmt.Sprintf("[%s %s blocked outside the simulator (channel/sleep)] ", t.Name, t.Entry)
		}
	}
	return out
}

type byName []*Task

//go:norace
func (a byName) Len() int { return len(a) }

//go:norace
func (a byName) Swap(i, j int) { a[i], a[j] = a[j], a[i] }

//go:norace
func (a byName) Less(i, j int) bool { return a[i].Name < a[j].Name }

//go:norace
func (s *Sim) enabledTasks() (en []*Task, parked int, live int) {
	s.lock()
	ts := append([]*Task(nil), s.tasks...)
	s.unlock()
	for _, t := range ts {
		st := atomic.LoadInt32(&t.state)
		if st == stDone {
			continue
		}
		live++
		if st != stParked {
			continue // blocked in a channel op / sleep
		}
		parked++
		if t.enabled == nil || t.enabled() {
			en = append(en, t)
		}
	}
	sort.Sort(byName(en))
	return
}

//go:norace
func (s *Sim) choose(en []*Task) *Task {
	// put the last-run task first so that value 0 means "keep running"
	li := -1
	for i, t := range en {
		if t == s.last {
			li = i
		}
	}
	if li > 0 {
		l := en[li]
		copy(en[1:li+1], en[:li])
		en[0] = l
	}
	if len(en) == 1 {
		return en[0]
	}
	if s.stickyDen > 0 && li >= 0 {
		if !s.Tape.Chance(1, s.stickyDen, "sched.switch") {
			return en[0]
		}
		return en[1+s.Tape.Draw(len(en)-1, "sched.pick")]
	}
	return en[s.Tape.Draw(len(en), "sched.pick")]
}

// Result summarises a finished run.
type Result struct {
	Seed         uint64
	Outcome      string
	Steps        int
	Switches     int
	SimTime      time.Duration
	TraceHash    uint64
	ScheduleHash uint64
	Failures     []Failure
	Probes       map[string]int
	Faults       map[string]int
	OracleChecks int
	Tasks        int
	Tape         []uint32
	Labels       []string
	Log          []Event
	StateHashes  []uint64
	Sample       interface{}
}

// Options for one run.
type Options struct {
	MaxSteps  int
	IdleLimit time.Duration
	KeepLog   bool
	LogCap    int
	// StuckClause / MaxStepsClause: when set, a run that ends because nothing
	// can ever run again (deadlock, lost wake-up) or because the step budget
	// was exhausted (livelock) is a violation of that clause.
	StuckClause    string
	MaxStepsClause string
}

type bubbleRunner func(f func())

// RunBubble executes root inside a fresh synctest bubble under the scheduler.
// tb is used only to satisfy synctest.Test.
//
//go:norace
func RunBubble(run bubbleRunner, tape *Tape, seed uint64, opt Options, root func(s *Sim)) (res Result) {
	s := &Sim{Tape: tape, Seed: seed, Probes: &Counters{}, Faults: &Counters{}, Data: map[string]interface{}{}}
	s.MaxSteps = opt.MaxSteps
	if s.MaxSteps == 0 {
		s.MaxSteps = 20000
	}
	s.IdleLimit = opt.IdleLimit
	if s.IdleLimit == 0 {
		s.IdleLimit = time.Hour
	}
	s.KeepLog = opt.KeepLog
	s.logCap = opt.LogCap
	if s.logCap == 0 {
		s.logCap = 200000
	}
	s.hash = 14695981039346656037
	s.schedHash = 14695981039346656037
	s.gen = atomic.AddUint64(&genCounter, 1)
	func() {
		defer func() {
			// end-of-bubble "blocked goroutines remain" (library goroutines
			// that outlive the run) is expected; real panics of tasks were
			// already converted into failures.
			if r := recover(); r != nil {
				msg := fmt.Sprint(r)
				if !bytes.Contains([]byte(msg), []byte("deadlock")) && !bytes.Contains([]byte(msg), []byte("blocked goroutines")) {
					s.failures = append(s.failures, Failure{Clause: "panic", Msg: "bubble panicked: " + msg + "\n" + trimStack(debug.Stack())})
				}
			}
		}()
		run(func() { s.loop(root) })
	}()
	atomic.AddInt32(&activeSims, -1)
	curSim.Store(nil)
	if s.Outcome == "stuck" && opt.StuckClause != "" && len(s.failures) == 0 {
		s.failures = append(s.failures, Failure{Clause: opt.StuckClause, Key: "stuck", Msg: "no task can ever run again: " + s.parkedSummary(), Step: s.Step})
	}
	if s.Outcome == "max_steps" && opt.MaxStepsClause != "" && len(s.failures) == 0 {
		s.failures = append(s.failures, Failure{Clause: opt.MaxStepsClause, Key: "max-steps", Msg: fmt.Sprintf("step budget %d exhausted: %s", s.MaxSteps, s.parkedSummary()), Step: s.Step})
	}
	res = Result{Seed: seed, Outcome: s.Outcome, Steps: s.Step, Switches: s.Switches, SimTime: s.simEnd, TraceHash: s.hash,
		ScheduleHash: s.schedHash, Failures: s.failures, Probes: s.Probes.Map(), Faults: s.Faults.Map(), OracleChecks: s.OracleN,
		Tasks: len(s.tasks), Tape: tape.Values(), Labels: tape.Labels, Log: s.Log, StateHashes: s.stateHashes, Sample: s.sample()}
	return
}

// Counters is a tiny name->count table that is not a Go map: map operations are
// instrumented by the race runtime itself, and the simulator's bookkeeping must
// stay invisible to the detector (see lock()).
type Counters struct {
	names []string
	vals  []int
}

//go:norace
func (c *Counters) Add(name string, n int) {
	for i, x := range c.names {
		if x == name {
			c.vals[i] += n
			return
		}
	}
	c.names = append(c.names, name)
	c.vals = append(c.vals, n)
}

//go:norace
func (c *Counters) Get(name string) int {
	for i, x := range c.names {
		if x == name {
			return c.vals[i]
		}
	}
	return 0
}

//go:norace
func (c *Counters) Map() map[string]int {
	m := make(map[string]int, len(c.names))
	for i, x := range c.names {
		m[x] = c.vals[i]
	}
	return m
}

// pad3 formats n as at least three digits without fmt (fmt's printer pool must
// not be used while sync events are hidden from the race detector).
func pad3(n int) string {
	x := strconv.Itoa(n)
	for len(x) < 3 {
		x = "0" + x
	}
	return x
}
