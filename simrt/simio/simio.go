// Package simio provides the simulated byte-stream endpoints for codec
// harnesses: a reader that delivers its data in seeded segments (down to one
// byte, optionally with (0,nil) reads), ends at a chosen offset with EOF or an
// injected error, and a writer that accepts seeded short counts / fails at an
// offset. Every choice is drawn from the run's tape.
package simio

import (
	"errors"
	"io"

	"verif/simrt"
)

var ErrInjected = errors.New("simio: injected I/O error (connection reset)")

type Reader struct {
	S    *simrt.Sim
	Data []byte
	Pos  int
	// Seg: 0 = give everything asked for; n>0 = seeded lengths, tiny reads with probability 1/n
	Seg int
	// ErrAt >= 0: after this many bytes Read returns Err instead of more data / EOF
	ErrAt int
	Err   error
	// ZeroReads: occasionally return (0, nil)
	ZeroReads bool
	Calls     int
}

func NewReader(s *simrt.Sim, data []byte, seg int) *Reader {
	return &Reader{S: s, Data: data, Seg: seg, ErrAt: -1}
}

func (r *Reader) Read(p []byte) (int, error) {
	r.Calls++
	if len(p) == 0 {
		return 0, nil
	}
	limit := len(r.Data)
	if r.ErrAt >= 0 && r.ErrAt < limit {
		limit = r.ErrAt
	}
	if r.Pos >= limit {
		if r.ErrAt >= 0 && r.Pos >= r.ErrAt {
			r.S.Fault("read_error")
			return 0, r.Err
		}
		return 0, io.EOF
	}
	n := limit - r.Pos
	if n > len(p) {
		n = len(p)
	}
	if r.Seg > 0 {
		if r.ZeroReads && r.S.Chance(1, 12, "io.zero_read") {
			r.S.Fault("zero_read")
			return 0, nil
		}
		if n > 1 {
			if r.S.Chance(1, r.Seg, "io.tiny") {
				n = 1
			} else {
				n = 1 + r.S.Draw(n, "io.seg")
			}
			r.S.Fault("segment")
		}
	}
	copy(p, r.Data[r.Pos:r.Pos+n])
	r.Pos += n
	return n, nil
}

// Writer collects what is written; with Short it accepts a seeded shorter count
// (returning io.ErrShortWrite as the contract demands), with FailAt it fails
// once that many bytes were accepted.
type Writer struct {
	S      *simrt.Sim
	Buf    []byte
	Short  bool
	FailAt int
	Err    error
}

func NewWriter(s *simrt.Sim) *Writer { return &Writer{S: s, FailAt: -1} }

func (w *Writer) Write(p []byte) (int, error) {
	n := len(p)
	if w.FailAt >= 0 && len(w.Buf)+n > w.FailAt {
		k := w.FailAt - len(w.Buf)
		if k < 0 {
			k = 0
		}
		w.Buf = append(w.Buf, p[:k]...)
		w.S.Fault("write_error")
		return k, w.Err
	}
	if w.Short && n > 1 && w.S.Chance(1, 6, "io.short_write") {
		k := w.S.Draw(n, "io.short_n")
		w.Buf = append(w.Buf, p[:k]...)
		w.S.Fault("short_write")
		return k, io.ErrShortWrite
	}
	w.Buf = append(w.Buf, p...)
	return n, nil
}

// RFWriter is a Writer that also implements io.ReaderFrom (like *net.TCPConn or
// *bytes.Buffer), so that buffered writers take their delegation path.
type RFWriter struct{ *Writer }

func (w RFWriter) ReadFrom(r io.Reader) (int64, error) {
	var total int64
	buf := make([]byte, 512)
	for {
		n, err := r.Read(buf)
		if n > 0 {
			k, werr := w.Writer.Write(buf[:n])
			total += int64(k)
			if werr != nil {
				return total, werr
			}
		}
		if err == io.EOF {
			return total, nil
		}
		if err != nil {
			return total, err
		}
	}
}
