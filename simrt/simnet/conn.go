package simnet

import (
	"io"
	"net"
	"sync/atomic"
	"time"

	"verif/simrt"
)

type segment struct {
	data    []byte
	readyAt time.Time
}

// half is one direction of a connection (writer -> reader).
type half struct {
	segs     []segment // in flight / delivered, in order
	buffered int
	fin      bool // writer closed its side: EOF after the data
	rst      bool // connection broken: error at once, data discarded
	window   int  // bytes the reader side buffers before the writer blocks
	written  int64
	read     int64
	// hb carries the one happens-before edge a byte stream really gives: the
	// bytes a Read returns were written before. It is the only ordering the race
	// detector sees between the two ends.
	hb uint32
}

// Conn is one end of a simulated TCP connection.
type Conn struct {
	net    *Net
	id     int
	local  string
	remote string
	in     *half // peer -> me
	out    *half // me -> peer
	peer   *Conn
	closed bool
	rd, wd time.Time

	// Seg: 0 = a Read returns everything available (up to len(p));
	// n>0 = each Read returns a seeded 1..avail bytes, biased to tiny reads with probability 1/n.
	Seg int
	// Delay: upper bound (ms) of a seeded delivery delay applied to each Write (0 = none).
	DelayMs int
	// WriteFailAfter: when >=0, the Write that crosses this many bytes written returns
	// a short count and an error, and the connection is broken (short_write/write_err fault).
	WriteFailAfter int64
	// ReadHook is called (if set) with the number of bytes each Read returned.
	ReadHook func(n int)
	Label    string
}

// Pair creates a connected pair (client end, server end) without going through a listener.
//
//go:norace
func (n *Net) Pair(clientAddr, serverAddr string) (*Conn, *Conn) {
	a2b := &half{window: 64 << 10}
	b2a := &half{window: 64 << 10}
	a := &Conn{net: n, id: n.sim.NewObj(), local: clientAddr, remote: serverAddr, in: b2a, out: a2b, Seg: n.Seg, WriteFailAfter: -1}
	b := &Conn{net: n, id: n.sim.NewObj(), local: serverAddr, remote: clientAddr, in: a2b, out: b2a, Seg: n.Seg, WriteFailAfter: -1}
	a.peer, b.peer = b, a
	return a, b
}

// SetWindow sets how many unread bytes the peer may have in flight toward c before its Write blocks.
//
//go:norace
func (c *Conn) SetWindow(n int) { c.in.window = n }

//go:norace
func (c *Conn) readable(now time.Time) int {
	n := 0
	for _, s := range c.in.segs {
		if s.readyAt.After(now) {
			break
		}
		n += len(s.data)
	}
	return n
}

//go:norace
func (c *Conn) Read(p []byte) (int, error) {
	t := simrt.CurrentOrLazy()
	if t == nil || t.Killed() {
		return 0, ErrClosed
	}
	s := c.net.sim
	if len(p) == 0 {
		return 0, nil
	}
	var timer *time.Timer
	s.BkLock()
	rd := c.rd
	var next time.Time
	if len(c.in.segs) > 0 && c.in.segs[0].readyAt.After(time.Now()) {
		next = c.in.segs[0].readyAt
	}
	s.BkUnlock()
	wake := rd
	if !next.IsZero() && (wake.IsZero() || next.Before(wake)) {
		wake = next
	}
	if !wake.IsZero() {
		if d := time.Until(wake); d > 0 {
			timer = time.AfterFunc(d, s.Kick)
		}
	}
	t.Park(simrt.OpNetRead, c.id, c.canRead, nil)
	if timer != nil {
		timer.Stop()
	}
	s.BkLock()
	now := time.Now()
	if c.closed {
		s.BkUnlock()
		return 0, ErrClosed
	}
	if c.in.rst {
		s.BkUnlock()
		return 0, ErrReset
	}
	if !c.rd.IsZero() && !now.Before(c.rd) {
		// like a real socket: an expired read deadline fails the call even if data is waiting
		s.BkUnlock()
		s.Fault("read_deadline")
		return 0, errTimeout("read")
	}
	avail := c.readable(now)
	if avail == 0 {
		if c.in.fin && len(c.in.segs) == 0 {
			s.BkUnlock()
			return 0, io.EOF
		}
		if !c.rd.IsZero() && !now.Before(c.rd) {
			s.BkUnlock()
			s.Fault("read_deadline")
			return 0, errTimeout("read")
		}
		// deadline was moved while parked; retry
		s.BkUnlock()
		return c.Read(p)
	}
	want := avail
	if want > len(p) {
		want = len(p)
	}
	seg := c.Seg
	s.BkUnlock()
	if seg > 0 && want > 1 {
		if s.Chance(1, seg, "net.tiny") {
			want = 1 + s.Draw(minInt(want, 3), "net.tiny_n")
		} else {
			want = 1 + s.Draw(want, "net.seg")
		}
		s.Fault("segment")
	}
	atomic.LoadUint32(&c.in.hb)
	s.BkLock()
	n := 0
	for n < want && len(c.in.segs) > 0 {
		sg := &c.in.segs[0]
		k := copy(p[n:want], sg.data)
		n += k
		if k == len(sg.data) {
			c.in.segs = c.in.segs[1:]
		} else {
			sg.data = sg.data[k:]
		}
	}
	c.in.buffered -= n
	c.in.read += int64(n)
	hook := c.ReadHook
	s.BkUnlock()
	s.Kick() // a blocked writer may proceed
	if hook != nil {
		hook(n)
	}
	return n, nil
}

//go:norace
func minInt(a, b int) int {
	if a < b {
		return a
	}
	return b
}

//go:norace
func (c *Conn) Write(p []byte) (int, error) {
	t := simrt.CurrentOrLazy()
	if t == nil || t.Killed() {
		return 0, ErrClosed
	}
	s := c.net.sim
	total := 0
	for {
		var timer *time.Timer
		if !c.wd.IsZero() {
			if d := time.Until(c.wd); d > 0 {
				timer = time.AfterFunc(d, s.Kick)
			}
		}
		wr := &writeReq{c, len(p) == 0}
		t.Park(simrt.OpNetWrite, c.id, wr.can, nil)
		if timer != nil {
			timer.Stop()
		}
		s.BkLock()
		if c.closed || c.out.fin {
			s.BkUnlock()
			return total, ErrClosed
		}
		if c.out.rst {
			s.BkUnlock()
			return total, ErrBrokenPipe
		}
		if !c.wd.IsZero() && !time.Now().Before(c.wd) {
			// like a real socket: an expired write deadline fails the call even if there is room
			s.BkUnlock()
			s.Fault("write_deadline")
			return total, errTimeout("write")
		}
		if len(p) == 0 {
			s.BkUnlock()
			return total, nil
		}
		room := c.out.window - c.out.buffered
		if room <= 0 {
			s.BkUnlock()
			if !c.wd.IsZero() && !time.Now().Before(c.wd) {
				s.Fault("write_deadline")
				return total, errTimeout("write")
			}
			continue
		}
		k := len(p)
		if k > room {
			k = room
			s.BkUnlock()
			s.Fault("stall")
			s.BkLock()
		}
		if c.WriteFailAfter >= 0 && c.out.written+int64(k) > c.WriteFailAfter {
			k = int(c.WriteFailAfter - c.out.written)
			if k < 0 {
				k = 0
			}
			c.appendOut(p[:k])
			c.out.rst = true
			c.in.rst = true
			s.BkUnlock()
			atomic.AddUint32(&c.out.hb, 1)
			s.Fault("write_err")
			s.Kick()
			return total + k, ErrBrokenPipe
		}
		c.appendOut(p[:k])
		s.BkUnlock()
		atomic.AddUint32(&c.out.hb, 1)
		s.Kick()
		total += k
		p = p[k:]
		if len(p) == 0 {
			return total, nil
		}
	}
}

// appendOut queues data toward the peer (bookkeeping lock held).
//
//go:norace
func (c *Conn) appendOut(b []byte) {
	if len(b) == 0 {
		return
	}
	at := time.Now()
	if c.DelayMs > 0 {
		d := time.Duration(c.net.sim.Tape.Draw(c.DelayMs+1, "net.delay_ms")) * time.Millisecond
		if d > 0 {
			c.net.sim.Faults.Add("delay", 1)
			at = at.Add(d)
		}
	}
	if n := len(c.out.segs); n > 0 && c.out.segs[n-1].readyAt.After(at) {
		at = c.out.segs[n-1].readyAt // TCP keeps order
	}
	c.out.segs = append(c.out.segs, segment{append([]byte(nil), b...), at})
	c.out.buffered += len(b)
	c.out.written += int64(len(b))
}

// Close closes both directions (FIN toward the peer; local reads fail).
//
//go:norace
func (c *Conn) Close() error {
	s := c.net.sim
	if t := simrt.CurrentOrLazy(); t != nil && t.Killed() {
		return nil
	}
	s.BkLock()
	if c.closed {
		s.BkUnlock()
		return ErrClosed
	}
	c.closed = true
	c.out.fin = true
	// unread inbound data is discarded; the peer's further writes see a broken pipe
	c.in.rst = true
	c.in.segs = nil
	c.in.buffered = 0
	s.BkUnlock()
	s.Kick()
	if t := simrt.CurrentOrLazy(); t != nil {
		t.Park(simrt.OpNetClose, c.id, nil, nil)
	}
	return nil
}

// CloseWrite half-closes (FIN) the outbound direction.
//
//go:norace
func (c *Conn) CloseWrite() error {
	s := c.net.sim
	s.BkLock()
	c.out.fin = true
	s.BkUnlock()
	s.Fault("half_close")
	s.Kick()
	return nil
}

// Reset breaks the connection in both directions at once (RST).
//
//go:norace
func (c *Conn) Reset() {
	s := c.net.sim
	s.BkLock()
	c.out.rst = true
	c.out.segs = nil
	c.out.buffered = 0
	c.in.rst = true
	c.closed = true
	s.BkUnlock()
	s.Fault("reset")
	s.Kick()
}

//go:norace
func (c *Conn) LocalAddr() net.Addr { return tcpAddr(c.local) }

//go:norace
func (c *Conn) RemoteAddr() net.Addr { return tcpAddr(c.remote) }

//go:norace
func (c *Conn) SetDeadline(t time.Time) error {
	c.SetReadDeadline(t)
	return c.SetWriteDeadline(t)
}

//go:norace
func (c *Conn) SetReadDeadline(t time.Time) error {
	s := c.net.sim
	s.BkLock()
	c.rd = t
	s.BkUnlock()
	if !t.IsZero() {
		if d := time.Until(t); d > 0 {
			time.AfterFunc(d, s.Kick)
		}
	}
	s.Kick()
	return nil
}

//go:norace
func (c *Conn) SetWriteDeadline(t time.Time) error {
	s := c.net.sim
	s.BkLock()
	c.wd = t
	s.BkUnlock()
	if !t.IsZero() {
		if d := time.Until(t); d > 0 {
			time.AfterFunc(d, s.Kick)
		}
	}
	s.Kick()
	return nil
}

// Stats: bytes written by this end and read by this end so far.
//
//go:norace
func (c *Conn) Stats() (written, read int64) { return c.out.written, c.in.read }

// PeerClosed reports that the peer has closed or reset its side.
//
//go:norace
func (c *Conn) PeerClosed() bool { return c.in.fin || c.in.rst }

// enabled-callbacks run on the scheduler goroutine: methods, so //go:norace covers them.
//
//go:norace
func (c *Conn) canRead() bool {
	now := time.Now()
	return c.closed || c.in.rst || c.readable(now) > 0 || (c.in.fin && len(c.in.segs) == 0) ||
		(!c.rd.IsZero() && !now.Before(c.rd)) || (len(c.in.segs) > 0 && !c.in.segs[0].readyAt.After(now))
}

type writeReq struct {
	c     *Conn
	empty bool
}

//go:norace
func (w *writeReq) can() bool {
	c := w.c
	return c.closed || c.out.rst || c.out.fin || c.out.buffered < c.out.window || w.empty ||
		(!c.wd.IsZero() && !time.Now().Before(c.wd))
}
