package simnet

import (
	"net"
	"time"
)

// Dial, DialTimeout and Listen are what simgen rewrites net.Dial,
// net.DialTimeout and net.Listen call expressions to. Outside a simulation (or
// when the active simulation has no network installed) they are the real calls.
func Dial(network, address string) (net.Conn, error) {
	if n := current(); n != nil {
		return n.dial(network, address, 0)
	}
	return net.Dial(network, address)
}

func DialTimeout(network, address string, timeout time.Duration) (net.Conn, error) {
	if n := current(); n != nil {
		return n.dial(network, address, timeout)
	}
	return net.DialTimeout(network, address, timeout)
}

func Listen(network, address string) (net.Listener, error) {
	if n := current(); n != nil {
		return n.listen(network, address)
	}
	return net.Listen(network, address)
}
