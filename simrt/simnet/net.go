package simnet

import (
	"errors"
	"net"
	"time"

	"verif/simrt"
)

// Net is the simulated network of one run.
type Net struct {
	sim *simrt.Sim
}

func current() *Net {
	t := simrt.Current()
	if t == nil {
		return nil
	}
	if n, ok := t.Sim().Data["simnet"].(*Net); ok {
		return n
	}
	return nil
}

func (n *Net) dial(network, address string, timeout time.Duration) (net.Conn, error) {
	return nil, errors.New("simnet: not implemented")
}

func (n *Net) listen(network, address string) (net.Listener, error) {
	return nil, errors.New("simnet: not implemented")
}
