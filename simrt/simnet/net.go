// Package simnet is the simulated network: in-memory net.Conn pairs with
// seeded segmentation, delays, stalls, resets, half-closes and deadlines on
// the simulator's fake clock, plus addressable listeners and a dial policy.
// Every Read/Write/Accept/Dial is a sim op (a park point of the scheduler).
package simnet

import (
	"errors"
	"net"
	"os"
	"strconv"
	"syscall"
	"time"

	"verif/simrt"
)

// Verdict is the network's answer to a dial.
type Verdict int

const (
	Accept  Verdict = iota // connect succeeds
	Refuse                 // ECONNREFUSED at once
	Timeout                // no answer: the dialer's timeout elapses (or 75 s)
	Slow                   // accept after a delay
)

// DialInfo is handed to the dial policy.
type DialInfo struct {
	Addr    string
	Timeout time.Duration
	Local   string // address the dialing side will have (RemoteAddr of the accepted end)
	Task    string // entry function of the dialing task ("" for a foreign goroutine)
}

// Net is the simulated network of one run.
type Net struct {
	sim       *simrt.Sim
	// a slice, not a map: the runtime's map functions report their accesses to the race
	// detector whoever calls them, and the bookkeeping lock that guards this is hidden from it
	listeners []*Listener
	// Policy decides the outcome of each dial (nil = accept when a listener
	// exists, refuse otherwise). It may draw from the tape and record probes.
	Policy func(d DialInfo) (Verdict, time.Duration)
	// OnConnect, when set, is called with the server side of every accepted
	// dial whose address has no listener (harness-scripted peers).
	OnConnect func(addr string, server *Conn)
	nextPort  int
	Dials     int
	// Seg: default segmentation mode for new conns (see Conn.Seg).
	Seg int
}

// New installs a network into the simulation.
//
//go:norace
func New(s *simrt.Sim) *Net {
	n := &Net{sim: s, nextPort: 40000}
	s.Data["simnet"] = n
	return n
}

//go:norace
func current() *Net {
	t := simrt.CurrentOrLazy()
	if t == nil {
		return nil
	}
	if n, ok := t.Sim().Data["simnet"].(*Net); ok {
		return n
	}
	return nil
}

type timeoutErr struct{ op string }

//go:norace
func (e *timeoutErr) Error() string { return "simnet: " + e.op + ": i/o timeout" }

//go:norace
func (e *timeoutErr) Timeout() bool { return true }

//go:norace
func (e *timeoutErr) Temporary() bool { return true }

// ErrTimeout mirrors os.ErrDeadlineExceeded semantics (net.Error, Timeout()).
//
//go:norace
func errTimeout(op string) error {
	return &net.OpError{Op: op, Net: "tcp", Err: &timeoutErr{op}}
}

var ErrReset = &net.OpError{Op: "read", Net: "tcp", Err: os.NewSyscallError("read", syscall.ECONNRESET)}
var ErrClosed = &net.OpError{Op: "use", Net: "tcp", Err: errors.New("use of closed network connection")}
var errRefused = &net.OpError{Op: "dial", Net: "tcp", Err: os.NewSyscallError("connect", syscall.ECONNREFUSED)}
var ErrBrokenPipe = &net.OpError{Op: "write", Net: "tcp", Err: os.NewSyscallError("write", syscall.EPIPE)}

//go:norace
func tcpAddr(s string) *net.TCPAddr {
	h, p, err := net.SplitHostPort(s)
	if err != nil {
		return &net.TCPAddr{IP: net.IPv4(10, 255, 255, 1), Port: 1}
	}
	port, _ := strconv.Atoi(p)
	ip := net.ParseIP(h)
	if ip == nil {
		ip = net.IPv4(10, 255, 255, 2)
	}
	return &net.TCPAddr{IP: ip, Port: port}
}

//go:norace
func (n *Net) dial(network, address string, timeout time.Duration) (net.Conn, error) {
	t := simrt.CurrentOrLazy()
	s := n.sim
	s.BkLock()
	n.Dials++
	n.nextPort++
	local := "10.250.0.1:" + strconv.Itoa(n.nextPort)
	l := n.listener(address)
	s.BkUnlock()
	v, d := Accept, time.Duration(0)
	if n.Policy != nil {
		v, d = n.Policy(DialInfo{Addr: address, Timeout: timeout, Local: local, Task: t.Entry})
	} else if l == nil && n.OnConnect == nil {
		v = Refuse
	}
	t.Park(simrt.OpNetDial, 0, nil, nil)
	switch v {
	case Refuse:
		s.Fault("dial_refused")
		return nil, errRefused
	case Timeout:
		s.Fault("dial_timeout")
		if timeout <= 0 {
			timeout = 75 * time.Second
		}
		simrt.Sleep(timeout)
		return nil, errTimeout("dial")
	case Slow:
		s.Fault("dial_slow")
		if timeout > 0 && d >= timeout {
			simrt.Sleep(timeout)
			return nil, errTimeout("dial")
		}
		simrt.Sleep(d)
	}
	c, srv := n.Pair(local, address)
	if l != nil {
		s.BkLock()
		closed := l.closed
		if !closed {
			l.backlog = append(l.backlog, srv)
		}
		s.BkUnlock()
		if closed {
			return nil, errRefused
		}
		s.Kick()
	} else if n.OnConnect != nil {
		n.OnConnect(address, srv)
	} else if n.Policy == nil {
		return nil, errRefused
	}
	// (a Policy that accepts without a listener: the peer end is simply never served)
	return c, nil
}

// listener: bookkeeping lock held.
//
//go:norace
func (n *Net) listener(addr string) *Listener {
	for _, l := range n.listeners {
		if l.addr == addr {
			return l
		}
	}
	return nil
}

// dropListener: bookkeeping lock held.
//
//go:norace
func (n *Net) dropListener(addr string) {
	for i, l := range n.listeners {
		if l.addr == addr {
			n.listeners = append(n.listeners[:i:i], n.listeners[i+1:]...)
			return
		}
	}
}

// Listener is a simulated listening socket.
type Listener struct {
	net     *Net
	addr    string
	backlog []*Conn
	closed  bool
}

// Listen creates an addressable endpoint ("10.1.0.3:8080").
//
//go:norace
func (n *Net) Listen(addr string) *Listener {
	l := &Listener{net: n, addr: addr}
	n.sim.BkLock()
	n.dropListener(addr)
	n.listeners = append(n.listeners, l)
	n.sim.BkUnlock()
	return l
}

//go:norace
func (n *Net) listen(network, address string) (net.Listener, error) {
	return n.Listen(address), nil
}

//go:norace
func (l *Listener) Accept() (net.Conn, error) {
	t := simrt.CurrentOrLazy()
	if t == nil || t.Killed() {
		return nil, ErrClosed
	}
	t.Park(simrt.OpNetAccept, 0, l.canAccept, nil)
	s := l.net.sim
	s.BkLock()
	defer s.BkUnlock()
	if len(l.backlog) == 0 {
		return nil, ErrClosed
	}
	c := l.backlog[0]
	l.backlog = l.backlog[1:]
	return c, nil
}

//go:norace
func (l *Listener) Close() error {
	s := l.net.sim
	s.BkLock()
	l.closed = true
	l.net.dropListener(l.addr)
	s.BkUnlock()
	s.Kick()
	return nil
}

//go:norace
func (l *Listener) Addr() net.Addr { return tcpAddr(l.addr) }

//go:norace
func (l *Listener) canAccept() bool { return len(l.backlog) > 0 || l.closed }
