// Package simsync is what `import "sync"` is rewritten to by simgen. Mutex,
// RWMutex, Cond and Once are scheduler-controlled inside a simulation (every
// Lock/RLock/Unlock/Wait is a park point and the scheduler decides who gets the
// lock) and fall back to the real primitives for goroutines outside one.
// Happens-before edges for the race detector are produced with sync/atomic on
// a per-lock word, so that -race sees exactly the synchronisation BFE's own
// locks provide (the scheduler hand-off itself is hidden, see simrt/race*.go).
package simsync

import (
	"sync"
	"sync/atomic"

	"verif/simrt"
)

type (
	WaitGroup = sync.WaitGroup
	Pool      = sync.Pool
	Map       = sync.Map
	Locker    = sync.Locker
)

type Mutex struct {
	real  sync.Mutex
	gen   uint64
	id    int
	owner *simrt.Task
	hb    uint32
}

//go:norace
func (m *Mutex) touch(s *simrt.Sim) {
	s.BkLock()
	if m.gen != s.Gen() {
		m.gen = s.Gen()
		m.owner = nil
		m.id = 0
	}
	s.BkUnlock()
	if m.id == 0 {
		m.id = s.NewObj()
	}
}

//go:norace
func (m *Mutex) Lock() {
	t := simrt.CurrentOrLazy()
	if t == nil {
		m.real.Lock()
		return
	}
	if t.Killed() {
		return
	}
	m.touch(t.Sim())
	r := &mutexReq{m, t}
	t.Park(simrt.OpLock, m.id, r.can, r.take)
	atomic.LoadUint32(&m.hb)
}

//go:norace
func (m *Mutex) TryLock() bool {
	t := simrt.CurrentOrLazy()
	if t == nil {
		return m.real.TryLock()
	}
	if t.Killed() {
		return true
	}
	s := t.Sim()
	m.touch(s)
	t.Park(simrt.OpYield, m.id, nil, nil)
	s.BkLock()
	ok := m.owner == nil
	if ok {
		m.owner = t
	}
	s.BkUnlock()
	if ok {
		atomic.LoadUint32(&m.hb)
	}
	return ok
}

//go:norace
func (m *Mutex) Unlock() {
	t := simrt.CurrentOrLazy()
	if t == nil {
		m.real.Unlock()
		return
	}
	if t.Killed() {
		return
	}
	s := t.Sim()
	m.touch(s)
	atomic.AddUint32(&m.hb, 1)
	s.BkLock()
	if m.owner == nil {
		s.BkUnlock()
		panic("sync: unlock of unlocked mutex")
	}
	m.owner = nil
	s.BkUnlock()
	t.Park(simrt.OpUnlock, m.id, nil, nil)
}

type RWMutex struct {
	real    sync.RWMutex
	gen     uint64
	id      int
	writer  *simrt.Task
	readers int
	hbW     uint32
	hbR     uint32
}

//go:norace
func (m *RWMutex) touch(s *simrt.Sim) {
	s.BkLock()
	if m.gen != s.Gen() {
		m.gen = s.Gen()
		m.writer = nil
		m.readers = 0
		m.id = 0
	}
	s.BkUnlock()
	if m.id == 0 {
		m.id = s.NewObj()
	}
}

//go:norace
func (m *RWMutex) Lock() {
	t := simrt.CurrentOrLazy()
	if t == nil {
		m.real.Lock()
		return
	}
	if t.Killed() {
		return
	}
	m.touch(t.Sim())
	r := &rwReq{m, t}
	t.Park(simrt.OpLock, m.id, r.canW, r.takeW)
	atomic.LoadUint32(&m.hbW)
	atomic.LoadUint32(&m.hbR)
}

//go:norace
func (m *RWMutex) Unlock() {
	t := simrt.CurrentOrLazy()
	if t == nil {
		m.real.Unlock()
		return
	}
	if t.Killed() {
		return
	}
	s := t.Sim()
	m.touch(s)
	atomic.AddUint32(&m.hbW, 1)
	s.BkLock()
	if m.writer == nil {
		s.BkUnlock()
		panic("sync: Unlock of unlocked RWMutex")
	}
	m.writer = nil
	s.BkUnlock()
	t.Park(simrt.OpUnlock, m.id, nil, nil)
}

//go:norace
func (m *RWMutex) RLock() {
	t := simrt.CurrentOrLazy()
	if t == nil {
		m.real.RLock()
		return
	}
	if t.Killed() {
		return
	}
	m.touch(t.Sim())
	r := &rwReq{m, t}
	t.Park(simrt.OpRLock, m.id, r.canR, r.takeR)
	atomic.LoadUint32(&m.hbW)
}

//go:norace
func (m *RWMutex) RUnlock() {
	t := simrt.CurrentOrLazy()
	if t == nil {
		m.real.RUnlock()
		return
	}
	if t.Killed() {
		return
	}
	s := t.Sim()
	m.touch(s)
	atomic.AddUint32(&m.hbR, 1)
	s.BkLock()
	if m.readers <= 0 {
		s.BkUnlock()
		panic("sync: RUnlock of unlocked RWMutex")
	}
	m.readers--
	s.BkUnlock()
	t.Park(simrt.OpRUnlock, m.id, nil, nil)
}

type rlocker RWMutex

//go:norace
func (r *rlocker) Lock() { (*RWMutex)(r).RLock() }

//go:norace
func (r *rlocker) Unlock() { (*RWMutex)(r).RUnlock() }

//go:norace
func (m *RWMutex) RLocker() Locker { return (*rlocker)(m) }

type condWaiter struct {
	t         *simrt.Task
	signalled bool
}

// Cond mirrors sync.Cond (exported L, usable as a zero value once L is set).
type Cond struct {
	L Locker

	realMu  sync.Mutex
	real    *sync.Cond
	gen     uint64
	id      int
	waiters []*condWaiter
	hb      uint32
}

//go:norace
func NewCond(l Locker) *Cond { return &Cond{L: l} }

//go:norace
func (c *Cond) realCond() *sync.Cond {
	c.realMu.Lock()
	if c.real == nil {
		c.real = sync.NewCond(c.L)
	}
	r := c.real
	c.realMu.Unlock()
	return r
}

//go:norace
func (c *Cond) touch(s *simrt.Sim) {
	s.BkLock()
	if c.gen != s.Gen() {
		c.gen = s.Gen()
		c.waiters = nil
		c.id = 0
	}
	s.BkUnlock()
	if c.id == 0 {
		c.id = s.NewObj()
	}
}

//go:norace
func (c *Cond) Wait() {
	t := simrt.CurrentOrLazy()
	if t == nil {
		c.realCond().Wait()
		return
	}
	if t.Killed() {
		return
	}
	s := t.Sim()
	c.touch(s)
	w := &condWaiter{t: t}
	s.BkLock()
	c.waiters = append(c.waiters, w)
	s.BkUnlock()
	c.L.Unlock()
	t.Park(simrt.OpCondWait, c.id, w.isSignalled, nil)
	atomic.LoadUint32(&c.hb)
	c.L.Lock()
}

//go:norace
func (c *Cond) Signal() {
	t := simrt.CurrentOrLazy()
	if t == nil {
		c.realCond().Signal()
		return
	}
	if t.Killed() {
		return
	}
	s := t.Sim()
	c.touch(s)
	atomic.AddUint32(&c.hb, 1)
	s.BkLock()
	if len(c.waiters) > 0 {
		c.waiters[0].signalled = true
		c.waiters = c.waiters[1:]
	}
	s.BkUnlock()
}

//go:norace
func (c *Cond) Broadcast() {
	t := simrt.CurrentOrLazy()
	if t == nil {
		c.realCond().Broadcast()
		return
	}
	if t.Killed() {
		return
	}
	s := t.Sim()
	c.touch(s)
	atomic.AddUint32(&c.hb, 1)
	s.BkLock()
	for _, w := range c.waiters {
		w.signalled = true
	}
	c.waiters = nil
	s.BkUnlock()
}

// Waiters reports how many tasks are parked in Wait (for lost-wake-up oracles).
//
//go:norace
func (c *Cond) Waiters() int { return len(c.waiters) }

// Once is sync.Once for simulated code. Uncontended use produces no sim op at
// all (process-wide lazy initialisers must not make the first run of a process
// look different from later ones); a task that finds f running parks until it
// has completed instead of blocking on a real, non-durable lock.
type Once struct {
	done    uint32
	real    sync.Mutex
	gen     uint64
	running bool
}

//go:norace
func (o *Once) Do(f func()) {
	if atomic.LoadUint32(&o.done) == 1 {
		return
	}
	t := simrt.CurrentOrLazy()
	if t == nil || t.Killed() {
		o.real.Lock()
		defer o.real.Unlock()
		if o.done == 0 {
			defer atomic.StoreUint32(&o.done, 1)
			f()
		}
		return
	}
	s := t.Sim()
	for {
		s.BkLock()
		if o.gen != s.Gen() {
			o.gen = s.Gen()
			o.running = false
		}
		if atomic.LoadUint32(&o.done) == 1 {
			s.BkUnlock()
			return
		}
		if !o.running {
			o.running = true
			s.BkUnlock()
			defer func() {
				s.BkLock()
				o.running = false
				s.BkUnlock()
				atomic.StoreUint32(&o.done, 1)
			}()
			f()
			return
		}
		s.BkUnlock()
		t.Park(simrt.OpCustom, 0, o.settled, nil)
	}
}

// The scheduler evaluates enabled/grant callbacks on its own goroutine; they are
// methods (not closures) so that //go:norace covers them: the detector must not
// see the scheduler touching lock bookkeeping that lives inside BFE's objects.
type mutexReq struct {
	m *Mutex
	t *simrt.Task
}

//go:norace
func (r *mutexReq) can() bool { return r.m.owner == nil }

//go:norace
func (r *mutexReq) take() { r.m.owner = r.t }

type rwReq struct {
	m *RWMutex
	t *simrt.Task
}

//go:norace
func (r *rwReq) canW() bool { return r.m.writer == nil && r.m.readers == 0 }

//go:norace
func (r *rwReq) takeW() { r.m.writer = r.t }

//go:norace
func (r *rwReq) canR() bool { return r.m.writer == nil }

//go:norace
func (r *rwReq) takeR() { r.m.readers++ }

//go:norace
func (w *condWaiter) isSignalled() bool { return w.signalled }

//go:norace
func (o *Once) settled() bool { return atomic.LoadUint32(&o.done) == 1 || !o.running }
