package simrt

// Tape is the single source of every choice a run makes. In generate mode
// values come from a SplitMix64 stream seeded with the run seed and are
// recorded (already reduced mod n); in replay mode they come from the recorded
// slice (value mod n; 0 once exhausted). Value 0 is by convention always the
// simplest choice, so shrinking toward zeros shrinks toward boring runs.
type Tape struct {
	replay     bool
	vals       []uint32
	pos        int
	state      uint64
	used       []uint32 // reduced values actually handed out, both modes
	Labels     []string // filled only when KeepLabels
	KeepLabels bool
}

//go:norace
func NewTape(seed uint64) *Tape { return &Tape{state: seed} }

//go:norace
func ReplayTape(vals []uint32) *Tape {
	return &Tape{replay: true, vals: vals}
}

//go:norace
func splitmix(x *uint64) uint64 {
	*x += 0x9E3779B97F4A7C15
	z := *x
	z = (z ^ (z >> 30)) * 0xBF58476D1CE4E5B9
	z = (z ^ (z >> 27)) * 0x94D049BB133111EB
	return z ^ (z >> 31)
}

// Mix derives a sub-seed.
//
//go:norace
func Mix(a, b uint64) uint64 {
	x := a ^ (b * 0xD6E8FEB86659FD93)
	return splitmix(&x)
}

// Draw returns a value in [0,n). n<=1 returns 0 without consuming the tape.
//
//go:norace
func (t *Tape) Draw(n int, label string) int {
	if n <= 1 {
		return 0
	}
	var v uint32
	if t.replay {
		if t.pos < len(t.vals) {
			v = t.vals[t.pos] % uint32(n)
		}
		t.pos++
	} else {
		v = uint32(splitmix(&t.state) % uint64(n))
		t.pos++
	}
	t.used = append(t.used, v)
	if t.KeepLabels {
		t.Labels = append(t.Labels, label)
	}
	return int(v)
}

// Chance is true with probability num/den; tape value 0 means false.
//
//go:norace
func (t *Tape) Chance(num, den int, label string) bool {
	if num <= 0 {
		return false
	}
	return t.Draw(den, label) >= den-num
}

// Range returns a value in [lo,hi].
//
//go:norace
func (t *Tape) Range(lo, hi int, label string) int {
	if hi <= lo {
		return lo
	}
	return lo + t.Draw(hi-lo+1, label)
}

// Values returns the values consumed so far (recorded or replayed, reduced).
//
//go:norace
func (t *Tape) Values() []uint32 { return append([]uint32(nil), t.used...) }

// Pos is the number of draws made.
//
//go:norace
func (t *Tape) Pos() int { return t.pos }
