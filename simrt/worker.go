package simrt

import (
	"encoding/json"
	"fmt"
	"hash/fnv"
	"os"
	"runtime"
	"sort"
	"strconv"
	"strings"
	"testing"
	"testing/synctest"
	"time"
)

// Prop describes one property's simulation entry point inside a harness binary.
type Prop struct {
	Run func(s *Sim)
	Opt Options
	// RunsQuick/RunsThorough: default number of runs for the tiers (split over workers by the driver).
}

// Violation is what a worker reports for a failing run, after minimisation.
type Violation struct {
	Property   string      `json:"property"`
	Clause     string      `json:"clause"`
	Key        string      `json:"key"`
	Msg        string      `json:"msg"`
	Seed       uint64      `json:"seed"`
	RunIndex   int         `json:"run_index"`
	Mode       string      `json:"mode"`
	Tape       []uint32    `json:"tape"`
	OrigTape   int         `json:"orig_tape_len"`
	Labels     []string    `json:"labels,omitempty"`
	TraceHash  string      `json:"trace_hash"`
	Events     []string    `json:"events"`
	ShrinkRuns int         `json:"shrink_runs"`
	Race       bool        `json:"race"`
	Case       interface{} `json:"case,omitempty"`
}

// Summary is the worker's final JSON line.
type Summary struct {
	Property     string         `json:"property"`
	Runs         int            `json:"runs"`
	Steps        int            `json:"steps"`
	Switches     int            `json:"switches"`
	SimTimeS     float64        `json:"sim_time_s"`
	WallS        float64        `json:"wall_s"`
	OracleChecks int            `json:"oracle_checks"`
	Faults       map[string]int `json:"faults"`
	Probes       map[string]int `json:"probes"`
	Outcomes     map[string]int `json:"outcomes"`
	SchedHashes  []string       `json:"sched_hashes"`
	NontrivialSH []string       `json:"nontrivial_sched_hashes"`
	StateHashes  []string       `json:"state_hashes"`
	TraceHashes  []string       `json:"trace_hashes,omitempty"` // determinism self-test
	Samples      []interface{}  `json:"samples"`
	Violations   []Violation    `json:"violations"`
	Extra        map[string]int `json:"extra,omitempty"`
}

func envInt(name string, def int) int {
	if v := os.Getenv(name); v != "" {
		n, err := strconv.ParseInt(v, 10, 64)
		if err == nil {
			return int(n)
		}
	}
	return def
}

func propHash(p string) uint64 {
	h := fnv.New64a()
	h.Write([]byte(p))
	return h.Sum64()
}

// RunSeed is the seed of run i of property p under the check's VERIF_SEED.
func RunSeed(verifSeed uint64, p string, i int) uint64 {
	return Mix(Mix(verifSeed, propHash(p)), uint64(i))
}

// Mode is the per-process configuration class ("nofault", "swarm", ...) set by the driver.
func Mode() string { return os.Getenv("SIM_MODE") }

// Tier is "quick" or "thorough".
func Tier() string {
	if v := os.Getenv("SIM_TIER"); v != "" {
		return v
	}
	return "quick"
}

func runOne(t *testing.T, p Prop, tape *Tape, seed uint64, keepLog bool) Result {
	opt := p.Opt
	opt.KeepLog = keepLog
	return RunBubble(func(f func()) {
		synctest.Test(t, func(*testing.T) { f() })
	}, tape, seed, opt, p.Run)
}

func failKey(fs []Failure) (string, string) {
	if len(fs) == 0 {
		return "", ""
	}
	return fs[0].Clause, fs[0].Key
}

// Main is the body of a harness's TestSim.
func Main(t *testing.T, props map[string]Prop) {
	name := os.Getenv("SIM_PROP")
	p, ok := props[name]
	if !ok {
		if name == "" {
			t.Skip("SIM_PROP not set")
		}
		fmt.Fprintf(os.Stderr, "unknown property %q in this harness\n", name)
		os.Exit(2)
	}
	out := os.Stdout
	if f := os.Getenv("SIM_OUT"); f != "" {
		fh, err := os.Create(f)
		if err != nil {
			fmt.Fprintln(os.Stderr, err)
			os.Exit(2)
		}
		defer fh.Close()
		out = fh
	}
	enc := json.NewEncoder(out)
	wd := envInt("SIM_WATCHDOG_S", 120)
	var curSeed uint64
	var curIdx int
	watchdog := time.AfterFunc(time.Duration(wd)*time.Second, func() {
		fmt.Fprintf(os.Stderr, "WATCHDOG property=%s run_index=%d seed=%d: no progress for %ds of real time\n", name, curIdx, curSeed, wd)
		if os.Getenv("SIM_WATCHDOG_STACKS") != "" {
			buf := make([]byte, 1<<20)
			buf = buf[:runtime.Stack(buf, true)]
			os.Stderr.Write(buf)
		}
		os.Exit(2)
	})
	pet := func() { watchdog.Reset(time.Duration(wd) * time.Second) }

	if rf := os.Getenv("SIM_REPLAY"); rf != "" {
		var v Violation
		b, err := os.ReadFile(rf)
		if err == nil {
			err = json.Unmarshal(b, &v)
		}
		if err != nil {
			fmt.Fprintln(os.Stderr, "replay file:", err)
			os.Exit(2)
		}
		if v.Mode != "" {
			os.Setenv("SIM_MODE", v.Mode)
		}
		res := runOne(t, p, ReplayTape(v.Tape), v.Seed, true)
		c, k := failKey(res.Failures)
		rep := map[string]interface{}{"replayed": true, "clause": c, "key": k, "trace_hash": fmt.Sprintf("%016x", res.TraceHash),
			"events": renderLog(res.Log, envInt("SIM_LOG_MAX", 5000)), "failures": res.Failures}
		enc.Encode(rep)
		return
	}

	verifSeed := uint64(envInt("SIM_SEED", 1))
	from := envInt("SIM_FROM", 0)
	count := envInt("SIM_COUNT", 100)
	maxViol := envInt("SIM_MAX_VIOL", 2)
	knownKeys, knownSeen, newViol := map[string]bool{}, map[string]bool{}, 0
	for _, k := range strings.Split(os.Getenv("SIM_KNOWN_KEYS"), "|") {
		if k != "" {
			knownKeys[k] = true
		}
	}
	budget := time.Duration(envInt("SIM_BUDGET_S", 0)) * time.Second
	selftest := os.Getenv("SIM_TRACE_HASHES") != ""
	announce := os.Getenv("SIM_ANNOUNCE") != ""
	sum := Summary{Property: name, Faults: map[string]int{}, Probes: map[string]int{}, Outcomes: map[string]int{}, Extra: map[string]int{}}
	sched := map[uint64]bool{}
	nontriv := map[uint64]bool{}
	states := map[uint64]bool{}
	startWall := time.Now()
	for i := from; i < from+count; i++ {
		if budget > 0 && time.Since(startWall) > budget {
			break
		}
		seed := RunSeed(verifSeed, name, i)
		curSeed, curIdx = seed, i
		pet()
		if announce {
			fmt.Fprintf(os.Stderr, "SIMRUN %d %d\n", i, seed)
		}
		tape := NewTape(seed)
		dump := os.Getenv("SIM_DUMP_RUN") == strconv.Itoa(i)
		res := runOne(t, p, tape, seed, dump)
		if dump {
			b, _ := json.MarshalIndent(map[string]interface{}{"events": renderLog(res.Log, 100000), "tape": res.Tape}, "", " ")
			os.WriteFile(os.Getenv("SIM_DUMP_FILE"), b, 0o644)
		}
		sum.Runs++
		sum.Steps += res.Steps
		sum.Switches += res.Switches
		sum.SimTimeS += res.SimTime.Seconds()
		sum.OracleChecks += res.OracleChecks
		for k, v := range res.Faults {
			sum.Faults[k] += v
		}
		for k, v := range res.Probes {
			sum.Probes[k] += v
		}
		oc := res.Outcome
		if oc == "" {
			oc = "completed"
		}
		sum.Outcomes[oc]++
		sched[res.ScheduleHash] = true
		nf := 0
		for _, v := range res.Faults {
			nf += v
		}
		if res.OracleChecks > 0 && (res.Switches > 1 || nf > 0) {
			nontriv[res.ScheduleHash] = true
		}
		for _, h := range res.StateHashes {
			states[h] = true
		}
		if selftest {
			sum.TraceHashes = append(sum.TraceHashes, fmt.Sprintf("%d:%016x", i, res.TraceHash))
		}
		if len(sum.Samples) < 3 && res.Sample != nil {
			sum.Samples = append(sum.Samples, map[string]interface{}{"run_index": i, "seed": seed, "steps": res.Steps,
				"faults": res.Faults, "case": res.Sample})
		}
		if only := envInt("SIM_ONLY_VIOL_AT", -1); only >= 0 && i != only {
			continue // batch replay: earlier runs only provide the process state
		}
		if len(res.Failures) > 0 {
			_, fk := failKey(res.Failures)
			if knownKeys[fk] {
				// a listed known finding: one replayable instance is enough, and it does not use up
				// the budget for new violations
				if !knownSeen[fk] {
					knownSeen[fk] = true
					pet()
					quickShrink = true
					sum.Violations = append(sum.Violations, minimise(t, p, name, res, i, pet))
					quickShrink = false
				}
				continue
			}
			if newViol < maxViol {
				pet()
				v := minimise(t, p, name, res, i, pet)
				sum.Violations = append(sum.Violations, v)
				newViol++
				if newViol >= maxViol {
					break
				}
			}
		}
	}
	sum.WallS = time.Since(startWall).Seconds()
	sum.SchedHashes = hexSet(sched)
	sum.NontrivialSH = hexSet(nontriv)
	sum.StateHashes = hexSet(states)
	enc.Encode(sum)
	watchdog.Stop()
}

func hexSet(m map[uint64]bool) []string {
	r := make([]string, 0, len(m))
	for h := range m {
		r = append(r, fmt.Sprintf("%016x", h))
	}
	sort.Strings(r)
	return r
}

func renderLog(log []Event, max int) []string {
	var out []string
	if len(log) > max {
		// keep what a reader needs first: drop pure timer wake-ups before cutting the head
		var kept []Event
		for _, e := range log {
			if e.Kind == "sleep" && e.Detail == "" {
				continue
			}
			kept = append(kept, e)
		}
		log = kept
	}
	if len(log) > max {
		out = append(out, fmt.Sprintf("... %d earlier events omitted ...", len(log)-max))
		log = log[len(log)-max:]
	}
	for _, e := range log {
		line := fmt.Sprintf("#%d t=%v %s %s", e.Seq, e.At, e.Task, e.Kind)
		if e.Obj != 0 {
			line += fmt.Sprintf(" obj=%d", e.Obj)
		}
		if e.Detail != "" {
			d := e.Detail
			if len(d) > 3000 {
				d = d[:3000] + "…"
			}
			line += " " + d
		}
		out = append(out, line)
	}
	return out
}

// minimise shrinks the failing run's tape while the same (clause,key) keeps
// failing, then re-runs the minimum with the log kept.
// quickShrink: a known finding only needs a replayable instance, not the smallest one
var quickShrink bool

func minimise(t *testing.T, p Prop, name string, res Result, idx int, pet func()) Violation {
	clause, key := failKey(res.Failures)
	best := append([]uint32(nil), res.Tape...)
	runs := 0
	maxRuns := envInt("SIM_SHRINK_RUNS", 400)
	if quickShrink {
		maxRuns = 0 // a known finding only needs a replayable instance: the run as it was
	}
	if maxRuns == 0 {
		c, k := failKey(res.Failures)
		return Violation{Property: name, Clause: c, Key: k, Msg: res.Failures[0].Msg, Seed: res.Seed, RunIndex: idx, Mode: Mode(),
			Tape: res.Tape, OrigTape: len(res.Tape), TraceHash: fmt.Sprintf("%016x", res.TraceHash)}
	}
	// a candidate that runs much longer than the failing run is no simplification: cut it off
	// (a zeroed tape can mean "largest payload, byte by byte" and run to the step limit)
	pc := p
	if c := res.Steps*4 + 2000; c < pc.Opt.MaxSteps {
		pc.Opt.MaxSteps = c
	}
	deadline := time.Now().Add(time.Duration(envInt("SIM_SHRINK_S", 60)) * time.Second)
	spent := func() bool { return runs >= maxRuns || time.Now().After(deadline) }
	try := func(c []uint32) bool {
		if spent() {
			return false
		}
		runs++
		pet()
		r := runOne(t, pc, ReplayTape(c), res.Seed, false)
		c2, k2 := failKey(r.Failures)
		if c2 == clause && k2 == key {
			// keep only what was consumed
			u := r.Tape
			if len(u) > len(c) {
				u = u[:len(c)]
			}
			best = trimZeros(append([]uint32(nil), u...))
			return true
		}
		return false
	}
	// canonicalise
	try(best)
	// 1. shortest failing prefix (an exhausted tape yields zeros)
	orig := append([]uint32(nil), best...)
	lo, hi := 0, len(orig)
	for lo < hi && !spent() {
		mid := (lo + hi) / 2
		if try(append([]uint32(nil), orig[:mid]...)) {
			hi = mid
		} else {
			lo = mid + 1
		}
	}
	// 2. delete blocks, 3. zero blocks
	for pass := 0; pass < 2; pass++ {
		for size := 32; size >= 1 && !spent(); size /= 2 {
			for i := 0; i+size <= len(best) && !spent(); {
				var c []uint32
				if pass == 0 {
					c = append(append([]uint32(nil), best[:i]...), best[i+size:]...)
				} else {
					c = append([]uint32(nil), best...)
					allz := true
					for j := i; j < i+size; j++ {
						if c[j] != 0 {
							allz = false
						}
						c[j] = 0
					}
					if allz {
						i += size
						continue
					}
				}
				if !try(c) {
					i += size
				}
			}
		}
	}
	// 4. lower single values
	for i := 0; i < len(best) && !spent(); i++ {
		for i < len(best) && best[i] > 0 && !spent() {
			c := append([]uint32(nil), best...)
			c[i] = c[i] / 2
			if !try(c) {
				if i >= len(best) {
					break
				}
				c = append([]uint32(nil), best...)
				c[i]--
				if !try(c) {
					break
				}
			}
		}
	}
	final := runOne(t, p, func() *Tape { tp := ReplayTape(best); tp.KeepLabels = true; return tp }(), res.Seed, true)
	c2, k2 := failKey(final.Failures)
	msg := ""
	if len(final.Failures) > 0 {
		msg = final.Failures[0].Msg
	}
	if c2 != clause || k2 != key {
		// should not happen (deterministic); report the original unshrunk run
		final = runOne(t, p, func() *Tape { tp := ReplayTape(res.Tape); tp.KeepLabels = true; return tp }(), res.Seed, true)
		best = res.Tape
		if len(final.Failures) > 0 {
			msg = final.Failures[0].Msg
		} else {
			msg = "NOT REPRODUCED on replay: " + res.Failures[0].Msg
		}
	}
	return Violation{Property: name, Clause: clause, Key: key, Msg: msg, Seed: res.Seed, RunIndex: idx, Mode: Mode(),
		Tape: best, OrigTape: len(res.Tape), Labels: final.Labels, TraceHash: fmt.Sprintf("%016x", final.TraceHash),
		Events: renderLog(final.Log, 1500), ShrinkRuns: runs, Case: final.Sample}
}

func trimZeros(v []uint32) []uint32 {
	n := len(v)
	for n > 0 && v[n-1] == 0 {
		n--
	}
	return v[:n]
}
