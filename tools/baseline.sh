#!/bin/sh
# usage: tools/baseline.sh [out.json] : run bfe's pinned test suite on /repo's working tree (go.mod untouched) and compare with BASELINE.json
out=${1:-/var/tmp/bl_run.json}
export GOFLAGS=-mod=mod GOPROXY=off GOSUMDB=off
cp /repo/go.mod /var/tmp/gm.mod; cp /repo/go.sum /var/tmp/gm.sum
(cd /repo && go test -modfile=/var/tmp/gm.mod -json -vet=off -count=1 -timeout 25m ./... > "$out" 2>/var/tmp/bl_run.err)
python3 - "$out" <<'PY'
import json,sys
b=json.load(open('/root/.vp/BASELINE.json'))
res={}
for l in open(sys.argv[1]):
    try: e=json.loads(l)
    except Exception: continue
    if e.get('Test') and e.get('Action') in ('pass','fail','skip'):
        res[e['Package']+'::'+e['Test']]=e['Action']
want=b['stable_pass']
def key(x): return x
missing=[w for w in want if res.get(w)!='pass' and res.get(w.replace(' ','::'))!='pass']
print("baseline: %d stable tests, %d not passing now" % (len(want), len(missing)))
for m in missing[:20]: print("  NOT PASS:", m, res.get(m))
PY
