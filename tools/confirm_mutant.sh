#!/bin/sh
# usage: tools/confirm_mutant.sh <worktree> <patch> <demo_test.go> <pkgdir relative> [test packages pattern]
# Confirms in a scratch worktree: patch applies to current /repo HEAD, builds,
# existing tests of the given packages pass with it, demo passes without it and fails with it.
wt=$1; patch=$2; demo=$3; pkg=$4; tests=${5:-./$pkg/...}
export GOFLAGS=-mod=mod GOPROXY=off GOSUMDB=off GOTOOLCHAIN=local
cd "$wt" || exit 2
git checkout -q -- . && git clean -fdq && git checkout -q --detach "$(git -C /repo rev-parse HEAD)" || exit 2
cm=/var/tmp/cm.$$; cp go.mod $cm.mod; cp go.sum $cm.sum
MF=-modfile=$cm.mod
cp "$demo" "$pkg/zz_demo_test.go"
echo "--- demo on unchanged tree (must pass)"
go test $MF -count=1 -vet=off $DEMO_RUN ./$pkg 2>&1 | tail -3
rm "$pkg/zz_demo_test.go"
git apply "$patch" || { echo "PATCH DOES NOT APPLY"; exit 1; }
echo "--- build with change"
go build $MF ./... 2>&1 | tail -3
echo "--- existing tests with change (must pass)"
go test $MF -count=1 -vet=off $tests 2>&1 | tail -8
cp "$demo" "$pkg/zz_demo_test.go"
echo "--- demo with change (must fail)"
go test $MF -count=1 -vet=off $DEMO_RUN ./$pkg 2>&1 | tail -6
git checkout -q -- . && git clean -fdq
