#!/usr/bin/env python3
"""Regenerate /verif/MANIFEST.json from tools/props.py and validate it against the schema."""
import json, os, sys
sys.path.insert(0, os.path.dirname(os.path.abspath(__file__)))
import props as P

VERIF = os.path.dirname(os.path.dirname(os.path.abspath(__file__)))
ids = [json.loads(l)["id"] for l in open(os.path.join(VERIF, "properties.jsonl"))]

checks = []
for pid in ids:
    if pid not in P.PROPS:
        continue
    p = P.PROPS[pid]
    checks.append({
        "property_id": pid,
        "quick_cmd": "./check %s --tier quick" % pid,
        "thorough_cmd": "./check %s --tier thorough" % pid,
        "evidence_file": "/verif/evidence/%s.json" % pid,
        "replay_cmd_template": "./check %s --replay {path}" % pid,
        "engine": P.ENGINES[p["engine"]]["name"],
        "level_claimed": {"category": p["level"], "text": p["level_text"], "design_ref": p["design"]},
        "level_note": p["level_note"],
        "technique": p["technique"],
    })
na = []
for pid in ids:
    if pid in P.PROPS:
        continue
    if pid not in P.NOT_APPLICABLE:
        sys.exit("property %s neither claimed nor listed not-applicable" % pid)
    na.append({"property_id": pid, "reason": P.NOT_APPLICABLE[pid]})

m = {
    "version": 1,
    "setup_cmd": "./setup.sh",
    "hooks": {
        "guard": "verif",
        "enable": "no hooks are committed in /repo: ./check runs bin/simgen, which rewrites /repo's current working tree into an overlay outside the repository (sync->simsync, go->simrt.Go, net.Dial/Listen->simnet, seeded map-range order) and adds the harness files of /verif/harness (build tag verif) to the matching packages via go build -overlay/-modfile; /repo itself is never written",
        "baseline_off_cmd": "for m in $(cat /w/out/gomods.txt); do MF=$(cd /repo/$m && . /w/out/goenv.sh && gomodflag); (cd /repo/$m && go test $MF -json -vet=off -count=1 -timeout 25m ./...); done",
        "source_commits": [],
        "add_only": True,
    },
    "engines": [{"name": e["name"], "path": "harness/" + e["pkg"][2:], "kind_free_text": e["desc"],
                 "serves_properties": [pid for pid in ids if pid in P.PROPS and P.PROPS[pid]["engine"] == k]}
                for k, e in P.ENGINES.items()],
    "checks": checks,
    "not_applicable": na,
    "notes": "Technique: deterministic simulation with fault injection (see DESIGN.md). One VERIF_SEED decides every run; violations are tape-minimised and replayed in a fresh process before being reported. Genuine defects fixed in /repo are listed in known_findings.txt.",
}
json.dump(m, open(os.path.join(VERIF, "MANIFEST.json"), "w"), indent=1)
try:
    import jsonschema
    jsonschema.validate(m, json.load(open("/root/.vp/MANIFEST.schema.json")))
    print("MANIFEST.json valid: %d checks, %d not_applicable" % (len(checks), len(na)))
except ImportError:
    print("MANIFEST.json written (jsonschema not available to validate)")
