#!/usr/bin/env python3
"""mktables.py : regenerate the seeded-changes table of DESIGN.md §0.4 from seeded/*/meta.json"""
import json, glob, os, re
V = os.path.dirname(os.path.dirname(os.path.abspath(__file__)))
rows = []
for d in sorted(glob.glob(os.path.join(V, "seeded", "C??-?"))):
    m = json.load(open(os.path.join(d, "meta.json")))
    esc = lambda s: s.replace("|", "/").replace("\n", " ")
    rows.append("| %s | %s | %s |" % (os.path.basename(d), esc(m["breaks"])[:160], esc(m["detected_by"])))
s = open(os.path.join(V, "DESIGN.md")).read()
head = "| id | what it breaks | detected by |\n|---|---|---|\n"
a = s.index(head) + len(head)
b = s.index("\n\n", a)
s = s[:a] + "\n".join(rows) + s[b:]
s = re.sub(r"unchanged tree\), fails its own demonstration and passes it without the change\. \d+ kept", "unchanged tree), fails its own demonstration and passes it without the change. %d kept" % len(rows), s)
open(os.path.join(V, "DESIGN.md"), "w").write(s)
print(len(rows), "rows")
