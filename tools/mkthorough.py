#!/usr/bin/env python3
"""mkthorough.py : regenerate DESIGN.md 0.5 (thorough tier as run) from evidence_thorough/*.json"""
import json, glob, os
V = os.path.dirname(os.path.dirname(os.path.abspath(__file__)))
tot_runs = tot_steps = tot_wall = tot_sim = 0
lines = []
for f in sorted(glob.glob(os.path.join(V, "evidence_thorough", "C*.json"))):
    e = json.load(open(f)); pid = os.path.basename(f)[:-5]; c = e["coverage"]
    runs = c.get("evaluations") or 0
    tot_runs += runs; tot_steps += c.get("steps", 0); tot_wall += e.get("wall_s", 0); tot_sim += c.get("sim_time_covered_s", 0)
    lines.append("| %s | %d | %d | %.0f | %d | %.0f |" % (pid, runs, c.get("steps", 0), c.get("sim_time_covered_s", 0), c.get("distinct_schedules", 0), e.get("wall_s", 0)))
p = os.path.join(V, "DESIGN.md"); s = open(p).read()
a = s.index("### 0.5 The thorough tier as run")
h = s.index("| check | runs | sim ops |", a)
b = s.index("\n\n", h)
head = s[a:h]
import re
head = re.sub(r"^\d+ runs, [\d.]+ x 10\^9 sim ops, [\d.]+ simulated days, [\d.]+ h of wall time", "%d runs, %.1f x 10^9 sim ops, %.1f simulated days, %.1f h of wall time" % (tot_runs, tot_steps / 1e9, tot_sim / 86400, tot_wall / 3600), head, flags=re.M)
s = s[:a] + head + "| check | runs | sim ops | simulated time (s) | distinct schedules | wall (s) |\n|---|---|---|---|---|---|\n" + "\n".join(lines) + s[b:]
open(p, "w").write(s)
print(tot_runs, "runs")
