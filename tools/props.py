# Registry of claimed properties: which harness package hosts the simulation,
# how many runs each tier executes, which per-process modes are used, whether a
# -race build is part of the check. The driver (./check) and tools/mkmanifest.py
# both read this.

ENGINES = {
    "A": {"name": "balancer-sim", "pkg": "./bfe_balance", "desc": "real bal_table/bal_gslb/bal_slb/backend under the lock-granular scheduler, fake clock, configs through the real file loaders"},
}

# runs: (quick, thorough); modes: list of (mode, fraction of runs)
PROPS = {
    "C01": dict(engine="A", runs=(6000, 200000), modes=[("nofault", 0.25), ("swarm", 0.75)], race=False,
                level="exploration", design="§6 Engine A / C01",
                technique="deterministic simulation: seeded histories of selections, reloads, availability flips and clock advances on the real balancer; sliding-window share oracle; tape-shrunk replay"),
}

NOT_APPLICABLE = {}
