# Registry of claimed properties: which harness package hosts the simulation,
# how many runs each tier executes, which per-process modes are used, whether a
# -race build is part of the check. The driver (./check) and tools/mkmanifest.py
# both read this.

ENGINES = {
    "H1": {"name": "pipe-sim", "pkg": "./bfe_util/pipe", "desc": "real bfe_util/pipe (mutex+cond) with writer/reader/closer/breaker tasks under the lock/cond-granular scheduler; porcupine linearizability against a bounded-FIFO model"},
    "H2": {"name": "prison-sim", "pkg": "./bfe_modules/mod_prison", "desc": "real mod_prison handler, rule table, rule-file loader and LRU dictionaries driven by timed request histories on the simulated clock"},
    "B": {"name": "health-sim", "pkg": "./bfe_balance/backend", "desc": "real BfeBackend + UpdateStatus + check() goroutine (a scheduler task via the go-statement rewrite) probing through simnet with seeded verdicts on the fake clock"},
    "C": {"name": "node-sim", "pkg": "./bfe_server", "desc": "whole BfeServer (NewBfeServer/InitHttp/InitDataLoad/modules) built from generated config files, real conn.serve/ReverseProxy/bfe_http.Transport, scripted clients and backends on simnet"},
    "D2": {"name": "http1-codec-sim", "pkg": "./bfe_http", "desc": "real bfe_http chunked reader/writer and ReadRequest fed through seeded segmenting / failing readers (simio), against the href RFC 7230 reference parsers"},
    "D3": {"name": "proxyproto-sim", "pkg": "./bfe_proxy", "desc": "real bfe_proxy.Conn over a simulated connection: a scripted sender (spec-conformant v1/v2 headers, malformed ones, none) with seeded segmentation, stalls past the header timeout on the fake clock and cuts"},
    "D1": {"name": "bufio-sim", "pkg": "./bfe_bufio", "desc": "real bfe_bufio Reader/Writer driven by seeded operation scripts over segmenting / failing sources and sinks (simio); stream and counter oracles, std bufio as second opinion on return conventions"},
    "A": {"name": "balancer-sim", "pkg": "./bfe_balance", "desc": "real bal_table/bal_gslb/bal_slb/backend under the lock-granular scheduler, fake clock, configs through the real file loaders"},
}

# runs: (quick, thorough); modes: list of (mode, fraction of runs)
PROPS = {
    "C01": dict(engine="A", runs=(6000, 200000), modes=[("nofault", 0.25), ("swarm", 0.75)], race=False,
                level="exploration", design="§6 Engine A / C01",
                level_text="Seeded exploration of simulated histories on the real balancer code: each run draws a weight vector and a history of reloads / availability flips / slow-start ramps (fake clock) and checks every sliding window of W selections of every stable epoch by counting. Evidence over the sampled seeds, not a proof.",
                level_note="Trusted: simrt scheduler/tape, the harness's counting oracle, go1.26.8 synctest fake clock. The harness reads no balancer internals except the backend list (to flip availability).",
                technique="deterministic simulation: seeded histories of selections, reloads, availability flips and clock advances on the real balancer; sliding-window share oracle; tape-shrunk replay"),
}

PROPS["C03"] = dict(expect_probes=["cross_retry_success", "blackhole_rejected", "balance_error", "select_during_ramp", "restart_mark"], engine="A", runs=(8000, 300000), modes=[("nofault", 0.25), ("swarm", 0.75)], race=False,
    level="exploration", design="§6 Engine A / C03",
    level_text="Seeded exploration of sequential histories (selections with retries, availability flips, reloads, basic-conf reloads, clock advances through slow-start ramps) on the real BalTable/BalanceGslb/BalanceRR built through the real file loaders; every returned target is checked against the harness's own ground truth (what it configured and marked down) and errors are demanded exactly when that ground truth has no eligible target.",
    level_note="Trusted: simrt, harness ground-truth model; designated sub-cluster of a key is learnt from a fresh all-up instance of the same real code (uses the determinism that C02 checks).",
    technique="deterministic simulation: seeded fault/reload histories on the real balancer with a ground-truth eligibility oracle; tape-shrunk replay")
PROPS["C04"] = dict(expect_probes=["wlc_checked", "wlc_direct_checked"], engine="A", runs=(8000, 300000), modes=[("nofault", 0.25), ("swarm", 0.75)], race=False,
    level="exploration", design="§6 Engine A / C04",
    level_text="Seeded histories of connection open/close, availability flips and reloads on the real balancer in WLC mode; each pick is compared by exact cross-multiplication with every eligible backend using connection counts the harness itself drove.",
    level_note="Trusted: simrt, harness's own connection counters (ground truth), integer cross-multiplication.",
    technique="deterministic simulation: seeded connection/fault histories with exact rational minimality oracle")
PROPS["C02"] = dict(expect_probes=["partition_subcluster_checked", "partition_sticky_checked", "sticky_compared"], engine="A", runs=(6000, 200000), modes=[("nofault", 0.25), ("swarm", 0.75)], race=False,
    level="exploration", design="§6 Engine A / C02",
    level_text="Within simulated histories (flips, reloads, basic-conf changes) every sticky/hash decision of the instance with history is compared with a fresh instance of the real code built from a permuted configuration listing (and, once available, a seeded map-iteration order) in the same eligibility state; plus an exact residue-partition count per target. Input/configuration-driven; the simulation contributes history and ordering independence.",
    level_note="Trusted: simrt, the twin construction (fresh real instance), murmur3 residue classification via the repo's own GetHash.",
    technique="deterministic simulation: history-vs-fresh-twin differential under seeded config order, residue partition count")

PROPS["C05"] = dict(expect_probes=["algo_0", "algo_1", "algo_2", "algo_3", "algo_4"], engine="A", runs=(4000, 200000), modes=[("nofault", 0.2), ("swarm", 0.8)], race=True, race_div=4,
    level="exploration", design="§6 Engine A / C05",
    level_text="Seeded search over lock-granular interleavings of 2-4 selector tasks, a task driving all five BalanceRR algorithms, an availability flapper, a reloader (real loaders + BalTableReload) and a slow-start setter on the real balancer; every Lock/RLock/Unlock is a scheduler decision. Oracle: no panic, no deadlock (stuck), no livelock (step budget / per-call step bound after mutators stop). A quarter of the runs is repeated in a -race build in which the scheduler's own hand-off is hidden from the detector, so reports are BFE's own missing happens-before for that interleaving.",
    level_note="Trusted: simrt scheduler and simsync (lock semantics incl. RWMutex without writer preference), Go race detector; a CPU-only infinite loop without any lock operation would trip the real-time watchdog (exit 2), not a verdict.",
    technique="deterministic simulation: seeded lock-granular schedule search with fault injection (flaps, reloads, clock), deadlock/livelock detection, race detector under controlled schedules")

PROPS["C09"] = dict(expect_probes=["survivor_checked", "removed_checked", "new_selectable_checked", "rename", "duplicate_address"], engine="A", runs=(6000, 200000), modes=[("nofault", 0.25), ("swarm", 0.75)], race=False,
    level="exploration", design="§6 Engine A / C09",
    level_text="Seeded histories of 1-10 reloads (backend/sub-cluster/cluster adds and removes, weight and gslb-weight changes, renames, duplicate addresses, clusters disappearing and reappearing) interleaved with availability flips, connection counts, failure marks and selections, all through the real loaders and BalTableReload. After every reload: survivors keep Avail/ConnNum/FailNum and are not released, every removed object has its close channel closed (a second release panics and is caught), nothing removed is ever selected again, every new eligible backend is selected within 2W picks.",
    level_note="Trusted: simrt, the harness's identity model (cluster, sub-cluster, addr:port, name); object identity of removed backends is taken from a snapshot of the balancer's own list before the reload.",
    technique="deterministic simulation: seeded reload histories on the real balancer with survivor/release/zombie/new oracles; tape-shrunk replay")

PROPS["C21"] = dict(expect_probes=["porcupine_ok", "write_refused", "break_seen_by_reader", "close_early"], engine="H1", runs=(20000, 600000), modes=[("nofault", 0.25), ("swarm", 0.75)], race=True, race_div=8,
    level="exploration", design="§6 Engine H / C21",
    level_text="Seeded search over mutex/cond-granular interleavings of a writer, a reader, a closer and an optional breaker on the real Pipe (buffer sizes 1-64, write sizes 0-80, read buffers 1-40). Oracles: stream invariants (bytes read are a prefix of bytes accepted, exactly once, in order; close only after drain; break immediate for reads invoked after it returned; n<len only with an error), lost-wake-up/deadlock detection, and porcupine linearizability of every recorded history against a sequential bounded-FIFO model; a -race variant.",
    level_note="Trusted: simrt/simsync (Cond is implemented on the scheduler, FIFO wake-up like sync.Cond), porcupine v1.3.0, the 60-line sequential model. One reader, one writer (the way HTTP/2 and SPDY use the pipe).",
    technique="deterministic simulation: seeded lock/cond-granular schedule search, stream invariants + porcupine linearizability vs a sequential model, race detector under controlled schedules")

PROPS["C53"] = dict(expect_probes=["some_denied"], engine="H2", runs=(20000, 600000), modes=[("nofault", 0.25), ("swarm", 0.75)], race=False,
    level="exploration", design="§6 Engine H / C53",
    level_text="Seeded timed request histories (1-3 keys, 5-60 requests, gaps from 0 to several periods incl. exact window/jail boundary instants, rule reloads in between) on the simulator's fake clock through the real module handler, rule table and rule-file loader; every verdict is compared with a small fixed-window reference model that keeps a set of admissible states where a request falls exactly on a boundary instant.",
    level_note="Trusted: simrt fake clock (synctest), the reference model (fixed window opened by the first request after the previous one expired; > Threshold in a window jails until window end + StayPeriod). Sequential per the property's quantifier (histories, inputs); dictionaries sized so that LRU eviction is not in play.",
    technique="deterministic simulation: seeded timed histories on a simulated clock vs an executable reference model (state-set refinement at boundary instants)")

PROPS["C06"] = dict(expect_probes=["up_transition_checked", "checker_ran"], engine="B", runs=(6000, 200000), modes=[("nofault", 0.25), ("swarm", 0.75)], race=True, race_div=8,
    level="exploration", design="§6 Engine B / C06",
    level_text="Seeded search over interleavings of 1-3 reporter tasks (OnFail/OnSuccess scripts with simulated gaps), the real check() goroutine, a scripted probe listener on the simulated network whose verdict per probe (accept / refuse / time out / slow accept) comes from the tape, and an optional Release, on the fake clock (intervals 10 ms-10 s). Oracles over the seq-stamped history: down exactly at FailNum consecutive failures (exact for one reporter with an ambiguity range around recoveries, interval-based for several), at most one live checker task at every scheduler step, every recovery preceded by SuccNum consecutive successful probes, at most one probe after Release and checker exit within bounded simulated time; -race variant.",
    level_note="Trusted: simrt/simnet, the task registry (a checker is a task whose entry function is backend.check with this backend as first argument), in-package read of the avail field at quiescence. TCP check mode only (HTTP mode goes through net/http, not simulated).",
    technique="deterministic simulation: seeded schedules + seeded probe verdicts on a simulated network/clock; history oracles for thresholds, single-checker invariant at every step, bounded-time release")

PROPS["SMOKE"] = dict(gomaxprocs=1, selftest_gomaxprocs=("1", "1", "1"), engine="C", runs=(4, 4), modes=[("nofault", 1.0)], race=False, level="exploration", design="", level_text="", level_note="", technique="")

PROPS["C07"] = dict(expect_probes=["forward_filter_finish", "finish_filter_finish", "response_filter_finish"], gomaxprocs=1, selftest_gomaxprocs=("1", "1", "1"), engine="C", runs=(1500, 60000), modes=[("nofault", 0.3), ("swarm", 0.7)], race=False, level="exploration", design="§6 Engine C / C07", level_text="Whole-node simulation: 1-3 client connections (each with its own cluster of 1-4 backends) send 1-5 requests through the real conn.serve / ReverseProxy / bfe_http.Transport while the scripted backends follow a per-attempt fault plan (connect refused / timed out, reset on accept, reset or close after the request, no response until the header timeout, reset mid-header / mid-body, slow bodies) and a generated HandleForward filter finishes some requests. Invariant at every scheduler step: no backend's active-connection count is negative; at node quiescence every count is zero.", level_note='Trusted: simrt/simnet, a harness accessor that reads connNum without the lock at quiescence. WebSocket/stream tunnels are not part of this check.', technique="deterministic simulation: whole-node run with scripted clients/backends on a simulated network, seeded faults and schedules, wire-level reference-parser oracles")

PROPS["C08"] = dict(expect_probes=["c08_retry_checked"], gomaxprocs=1, selftest_gomaxprocs=("1", "1", "1"), engine="C", runs=(1500, 60000), modes=[("nofault", 0.3), ("swarm", 0.7)], race=False, level="exploration", design="§6 Engine C / C08", level_text='Same node simulation with one client connection: the sequence of attempts the scripted backends (and the dial policy) observe for each request is checked: a further attempt only after a connect-phase failure or for a body-less GET when RetryLevel allows it, never after body bytes reached a backend, at most 1+RetryMax+CrossRetry attempts, attempts beyond RetryMax leave the designated sub-cluster.', level_note='Trusted: simrt/simnet, attribution of attempts to requests (one request in flight per cluster; request id in the target). Error classes are produced by real wire events, not by a stub RoundTripper.', technique="deterministic simulation: whole-node run with scripted clients/backends on a simulated network, seeded faults and schedules, wire-level reference-parser oracles")

PROPS["C26"] = dict(expect_probes=["c26_connection_listed_checked"], gomaxprocs=1, selftest_gomaxprocs=("1", "1", "1"), engine="C", runs=(1500, 60000), modes=[("nofault", 0.3), ("swarm", 0.7)], race=False, level="exploration", design="§6 Engine C / C26", level_text="Same node simulation; client requests are biased toward hop-by-hop material (Keep-Alive, Proxy-*, TE, Trailer, Upgrade, chunked bodies, fields named by Connection). Every request recorded by the scripted backends is parsed by the reference parser and must not carry a hop-by-hop field or a field listed in the client's Connection header. Input-driven; observed on the simulated backend wire under segmentation/faults.", level_note='Trusted: simrt/simnet, href reference request parser.', technique="deterministic simulation: whole-node run with scripted clients/backends on a simulated network, seeded faults and schedules, wire-level reference-parser oracles")

PROPS["C27"] = dict(expect_probes=["c27_full_response_checked", "c27_truncation_checked"], gomaxprocs=1, selftest_gomaxprocs=("1", "1", "1"), engine="C", runs=(1500, 60000), modes=[("nofault", 0.3), ("swarm", 0.7)], race=False, level="exploration", design="§6 Engine C / C27", level_text='Same node simulation; backend responses vary status (200/201/204/304/404/500/503/301), header sets (duplicates, Content-Type present/absent), framing (Content-Length, chunked with trailers, close-delimited), interim 100, slow bodies, and mid-response failures; clients vary method (GET/HEAD/POST/PUT), HTTP/1.0/1.1, keep-alive/close. The client-side byte stream is parsed by the reference response parser: one final response per request, backend status, end-to-end headers preserved per name in order, equal body (empty for HEAD/204/304), undelimited responses only on a closing connection, and a backend failure mid-body never delivered as a complete shorter body on a connection that stays open.', level_note="Trusted: simrt/simnet, href reference response parser. Reading of 'same headers': preserved, BFE may add Date / sniffed Content-Type / Connection / its own framing; Content-Type dropped from a 304 is not flagged (RFC 7232 4.1).", technique="deterministic simulation: whole-node run with scripted clients/backends on a simulated network, seeded faults and schedules, wire-level reference-parser oracles")

PROPS["C28"] = dict(expect_probes=["c28_all_answered"], gomaxprocs=1, selftest_gomaxprocs=("1", "1", "1"), engine="C", runs=(1500, 60000), modes=[("nofault", 0.3), ("swarm", 0.7)], race=False, level="exploration", design="§6 Engine C / C28", level_text='Same node simulation with sequential and pipelined (2-4) request bursts per connection, bodies with Content-Length and chunked framing, HEAD, HTTP/1.0, arbitrary segmentation of the client byte stream: responses arrive in request order with at most one final response each, every request a backend receives was sent by a client (a body re-read as a request shows up as an unknown id or an unparseable request), and a connection with unanswered requests is closed.', level_note='Trusted: simrt/simnet, href parsers, request ids embedded in targets and backend ids in responses.', technique="deterministic simulation: whole-node run with scripted clients/backends on a simulated network, seeded faults and schedules, wire-level reference-parser oracles")

PROPS["C23"] = dict(expect_probes=["roundtrip_ok", "truncation_rejected", "malformed_rejected"], engine="D2", runs=(20000, 1000000), modes=[("nofault", 0.25), ("swarm", 0.75)], race=False,
    level="exploration", design="§6 Engine D / C23",
    level_text="Seeded encoder->decoder round trips (bodies 0-5000 bytes, arbitrary chunkings, empty writes) through a reader that delivers the encoded bytes in seeded segments down to one byte with occasional (0,nil) reads and optional small bufio sizes; plus mutated encodings (size-line variants incl. empty, signed, 0x, 17 hex digits, overflow, control bytes; truncation at any offset; bare LF; broken CRLF after data). Oracle: an RFC 7230 4.1 reference decoder on the same bytes: equal bytes + clean end, or an error when the reference says malformed, and never a clean end on a truncated stream.",
    level_note="Trusted: simrt/simio, href.DecodeChunked (tolerates chunk extensions and BWS, rejects empty/over-long/non-hex sizes and bare LF). Input-driven; the simulator contributes segmentation, zero reads and truncation.",
    technique="deterministic simulation: seeded segmentation/truncation of the byte stream feeding the real codec, differential against an executable RFC reference")

PROPS["C48"] = dict(expect_probes=["c48_close_checked", "c48_response_checked", "c48_redirect_checked", "c48_finish_checked"], gomaxprocs=1, selftest_gomaxprocs=("1", "1", "1"), engine="C", runs=(1500, 60000), modes=[("nofault", 0.3), ("swarm", 0.7)], race=False, level="exploration", design="§6 Engine C / C48",
    level_text="Whole-node simulation with generated filter chains (0-3 filters per callback point, a verdict per filter and request) registered through the real BfeCallbacks.AddFilter at HandleBeforeLocation / FoundProduct / AfterLocation / Forward / ReadResponse / RequestFinish. Every filter execution is logged; oracle: filters run in registration order up to and including the first non-continue verdict and none after (per pass); close => no bytes for that request and the connection ends; response / redirect => exactly that response and zero backend contacts; finish => a reply and then the connection closes.",
    level_note="Trusted: simrt/simnet, href response parser, the generated filters (they log themselves). programs = filter chains; the simulation contributes the wire, keep-alive sequencing and backend-contact observation.",
    technique="deterministic simulation: whole-node run with generated module filter chains, execution-order log + wire-level oracle")

PROPS["C46"] = dict(expect_probes=["valid_ok", "malformed_rejected", "header_timeout", "cut_header"], engine="D3", runs=(8000, 400000), modes=[("nofault", 0.25), ("swarm", 0.75)], race=False,
    level="exploration", design="§6 Engine D / C46",
    level_text="A sender task writes a header built from the PROXY protocol specification (v1 TCP4/TCP6/UNKNOWN, v2 PROXY/LOCAL with TCP4/TCP6/UNSPEC blocks and TLVs incl. NOOP padding), a malformed one, or none, followed by a payload, over a simulated connection with seeded segmentation, a stall that may exceed the header timeout (fake clock) or a cut inside the header; a reader task reads through the real bfe_proxy.Conn. Oracle: advertised addresses (socket peer for LOCAL/UNKNOWN), payload identical and complete, malformed/truncated => error and zero payload bytes, timeout => error.",
    level_note="Trusted: simrt/simnet, the header builders (written from the specification, independent of bfe_proxy's writer). UDP and UNIX families are not generated (the statement does not say what to report for them).",
    technique="deterministic simulation: two-party exchange over a simulated connection with seeded segmentation, stalls against a simulated clock and cuts; spec-derived sender as oracle")

PROPS["C22"] = dict(expect_probes=["reader_script", "writer_script"], engine="D1", runs=(20000, 1000000), modes=[("nofault", 0.3), ("swarm", 0.7)], race=False,
    level="exploration", design="§6 Engine D / C22",
    level_text="Seeded operation scripts (Read, ReadByte, ReadSlice, ReadLine, ReadBytes, Peek, UnreadByte, ReadRune, UnreadRune, WriteTo, Buffered; Write, WriteByte, WriteRune, WriteString, ReadFrom, Flush) over a source that delivers seeded segments down to one byte, (0,nil) reads or an error at a seeded offset, and a sink that fails at an offset; buffer sizes 16-4096. Oracle: every byte handed out is the next byte of the source stream, in order; TotalRead / TotalWrite equal the bytes consumed / accepted after every operation; flushed bytes equal accepted bytes; in fault-free runs return conventions are compared with go1.26.8's bufio on the same script.",
    level_note="Trusted: simrt/simio, the positional stream model. The std comparison is limited to operations whose contract did not change since the fork and stops after the first Unread*.",
    technique="deterministic simulation: seeded operation histories over seeded segmenting/failing I/O endpoints; stream-position and counter invariants after every step")

PROPS["C24"] = dict(expect_probes=["stream_fully_agreed", "hostile_stream"], engine="D2", runs=(20000, 1000000), modes=[("nofault", 0.3), ("swarm", 0.7)], race=False,
    level="exploration", design="§6 Engine D / C24",
    level_text="Streams of 1-4 requests (GET/HEAD/POST/PUT, Content-Length and chunked bodies with trailers, duplicate identical lengths, OWS) mixed with smuggling shapes (conflicting Content-Length headers and lists, +N / 0xN lengths, whitespace before the colon, invalid field-name bytes, Transfer-Encoding gzip / chunked-not-last / xchunked / identity,chunked / two lines, CL together with TE) are fed to the real ReadRequest in seeded segments, reading each body as conn.serve does. Oracle: a strict RFC 7230 reference parser run on the same bytes: every request BFE accepts has the reference's request line, fields and body at the same position; whatever the reference must reject BFE rejects; fault-free valid streams are read completely.",
    level_note="Trusted: simrt/simio, href.ParseRequest (strict: rejects bare LF, obs-fold, invalid tokens, non-digit or conflicting lengths, codings other than a single final chunked; Content-Length together with chunked is framed by chunked per RFC 7230 3.3.3). BFE being stricter than the reference is not flagged. Input-driven; the simulation contributes segmentation.",
    technique="deterministic simulation: seeded segmentation of a multi-request byte stream feeding the real parser, differential against an executable RFC 7230 reference")

PROPS["C25"] = dict(expect_probes=['c25_forwarded_checked', 'hostile_request'], gomaxprocs=1, selftest_gomaxprocs=("1", "1", "1"), engine="C", runs=(1500, 60000), modes=[("nofault", 0.3), ("swarm", 0.7)], race=False, level="exploration", design="§6 Engine C / C25",
    level_text="Whole-node simulation in which client requests carry hostile material (bare CR, NUL and high bytes in values, obs-folded lines, CR in targets, percent-encoded CRLF, case-variant duplicates, very long values). Every byte sequence a scripted backend receives is parsed by the strict reference parser: it must be exactly one well-formed request per forwarded request with the client's method, target and body, and every field must have been sent by the client (or be BFE's framing / Host). HTTP/1 frontend only; the HTTP/2 and SPDY legs are not built yet.",
    level_note='Trusted: simrt/simnet, href request parser. Input-driven; observed on the simulated backend wire under segmentation and retries.',
    technique="deterministic simulation: whole-node run with scripted clients/backends on a simulated network, seeded faults and schedules, wire-level reference-parser oracles")

PROPS["C29"] = dict(expect_probes=['c29_untrusted_checked', 'c29_trusted_checked'], gomaxprocs=1, selftest_gomaxprocs=("1", "1", "1"), engine="C", runs=(1500, 60000), modes=[("nofault", 0.3), ("swarm", 0.7)], race=False, level="exploration", design="§6 Engine C / C29",
    level_text='Whole-node simulation with mod_trust_clientip and mod_header loaded from generated data files; socket peers inside / outside the trusted table; requests carrying X-Real-Ip, X-Real-Port, X-Forwarded-For, X-Forwarded-Port, Clientip, X-Bfe-Ip with valid and invalid values. Oracle at the scripted backend and through a generated filter reading req.ClientAddr: untrusted peer => ClientAddr, X-Real-Ip and X-Real-Port equal the socket peer, X-Forwarded-For ends with the peer IP; trusted peer => a valid X-Real-Ip is honoured.',
    level_note='Trusted: simrt/simnet (peer addresses are what the harness gave the simulated socket), href parser. Input/config-driven; claimed as a wire invariant of the node simulation.',
    technique="deterministic simulation: whole-node run with scripted clients/backends on a simulated network, seeded faults and schedules, wire-level reference-parser oracles")

PROPS["C54"] = dict(expect_probes=['c54_compressed_checked'], gomaxprocs=1, selftest_gomaxprocs=("1", "1", "1"), engine="C", runs=(1500, 60000), modes=[("nofault", 0.3), ("swarm", 0.7)], race=False, level="exploration", design="§6 Engine C / C54",
    level_text='Whole-node simulation with mod_compress (GZIP or BROTLI rule, quality 1-9, flush size 64-4096) and Accept-Encoding variants; backend bodies arrive in seeded segments, slowly or are cut. Oracle: a response with Content-Encoding decompresses (std gzip / andybalholm brotli reader) to exactly the backend body, the encoding was accepted by the request, no stale Content-Length.',
    level_note='Trusted: simrt/simnet, href parser, compress/gzip and the brotli reader as decoders.',
    technique="deterministic simulation: whole-node run with scripted clients/backends on a simulated network, seeded faults and schedules, wire-level reference-parser oracles")

NOT_APPLICABLE = {
    "C10": "pure function of (host table, VIP table, Host header): no goroutine, clock, stream, file or peer takes part; the only thing to vary is input, which is generation, not simulation (DESIGN §7)",
    "C11": "basic-rule tree lookup is a pure function of (rule set, host, path); nothing to schedule or fault (DESIGN §7)",
    "C12": "LookupCluster is a pure function of (rules, request); rule order is data, not a schedule (DESIGN §7)",
    "C16": "expression evaluation/precedence is a pure function of the expression string and request (DESIGN §7)",
    "C17": "condition parse/build is a pure function of the string; totality over inputs is fuzzing, not simulation (DESIGN §7)",
    "C18": "primitive matching is a pure function of (pattern, request); no schedule/fault dimension (DESIGN §7)",
    "C19": "IP dictionary membership after load is a pure function of (items, probe) (DESIGN §7)",
    "C20": "single-owner in-memory set with no lock, I/O or clock; an operation sequence is just an input (DESIGN §7)",
    "C43": "removePadding is a pure function of a byte slice (DESIGN §7)",
    "C45": "handshake message marshal/unmarshal are pure functions of values/bytes (DESIGN §7)",
    "C49": "rewrite/header/redirect actions are pure request transformations (DESIGN §7)",
    "C50": "path-to-file mapping is a pure function of the path and a static tree; no fault or schedule in the statement (DESIGN §7)",
    "C51": "credential/token/signature validation is a pure function of (request, rule, now) with now a plain argument (DESIGN §7)",
    "C52": "CORS header computation is a pure function of (origin, rule, existing headers) (DESIGN §7)",
    "C56": "DoH message conversion is a pure function of (request bytes, client address) (DESIGN §7)",
}
PLANNED = {
    "C02": "A", "C03": "A", "C04": "A", "C05": "A", "C09": "A", "C06": "B", "C07": "C", "C08": "C", "C13": "I", "C14": "I", "C15": "C",
    "C21": "H", "C22": "D", "C23": "D", "C24": "D", "C25": "C", "C26": "C", "C27": "C", "C28": "C", "C29": "C", "C30": "D", "C31": "D",
    "C32": "D", "C33": "E", "C34": "E", "C35": "E", "C36": "E", "C37": "E", "C38": "E", "C39": "D", "C40": "F", "C41": "G", "C42": "G",
    "C44": "G", "C46": "D", "C47": "C", "C48": "C", "C53": "H", "C54": "C", "C55": "D",
}
for _p, _e in PLANNED.items():
    if _p not in PROPS:
        NOT_APPLICABLE[_p] = "not claimed yet: simulation engine %s for this property is designed (DESIGN §6) but its check is not built; no verdict is offered" % _e
