#!/bin/sh
# usage: tools/run_all.sh quick|thorough [id ...] : run every registered check of the tier, one line per check
tier=$1; shift
cd /verif || exit 2
ids="$@"; [ -z "$ids" ] && ids=$(python3 -c "import json;print(' '.join(c['property_id'] for c in json.load(open('MANIFEST.json'))['checks']))")
for p in $ids; do
  t0=$(date +%s)
  ./check $p --tier $tier > /var/tmp/run_${tier}_$p.out 2>&1
  rc=$?
  echo "$p rc=$rc $(( $(date +%s) - t0 ))s $(grep -c '^VIOLATION' /var/tmp/run_${tier}_$p.out) violations $(grep -c '^KNOWN-FINDING' /var/tmp/run_${tier}_$p.out) known | $(tail -1 /var/tmp/run_${tier}_$p.out | cut -c1-110)"
done
