#!/usr/bin/env python3
"""saveseed.py <prop> <letter> <k> <demo_dir> <breaks> <needs> <detected_by> : copy a confirmed sub-agent change into seeded/"""
import os, shutil, json, sys
pid, letter, k, demo_dir, breaks, needs, det = sys.argv[1:8]
d = "/verif/seeded/%s-%s" % (pid, letter)
os.makedirs(d, exist_ok=True)
src = os.environ.get("SEEDSRC", "/tmp/seedout") + "/%s" % pid
shutil.copy("%s/patch%s.diff" % (src, k), d + "/patch.diff")
shutil.copy("%s/demo%s_test.go" % (src, k), d + "/demo_test.go")
if os.path.exists("%s/notes%s.md" % (src, k)):
    shutil.copy("%s/notes%s.md" % (src, k), d + "/notes.md")
json.dump({"property": pid, "breaks": breaks, "needs": needs, "demo_dir": demo_dir, "detected_by": det,
           "origin": "sub-agent (property text + scratch worktree only)",
           "confirmed": "tools/confirm_mutant.sh in a scratch worktree at /repo HEAD: patch applies, build ok, existing tests of the touched packages and bfe_server pass with the change, demo passes without / fails with it"},
          open(d + "/meta.json", "w"), indent=1)
print("saved", d)
