#!/usr/bin/env python3
"""showreplay.py <replay.json> [grep-regex] : labelled tape values and the interesting events of a replay file"""
import json, re, sys
d = json.load(open(sys.argv[1]))
pat = re.compile(sys.argv[2]) if len(sys.argv) > 2 else None
t, L = d.get('tape', []), d.get('labels', [])
vals = [(L[i], t[i] if i < len(t) else 0) for i in range(len(L)) if not L[i].startswith(('sched', 'net.'))]
print('tape:', vals[:120])
skip = (' park ', ' run ', ' read obj', ' write obj', 'lock obj', 'fault segment', ' condwait', ' sleep', ' condrelock', ' custom')
for l in d.get('events', []):
    if any(s in l for s in skip):
        continue
    if pat and not pat.search(l):
        continue
    print(l[:260])
