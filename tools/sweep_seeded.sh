#!/bin/sh
# usage: tools/sweep_seeded.sh [id ...]  -- apply every kept seeded change in turn, run its property's quick check, expect exit 1
cd /verif || exit 2
ids="$@"; [ -z "$ids" ] && ids=$(ls seeded)
for d in $ids; do
  prop=$(python3 -c "import json;print(json.load(open('seeded/$d/meta.json'))['property'])")
  out=$(tools/trymutant.sh $prop /verif/seeded/$d/patch.diff 2>&1)
  rc=$(echo "$out" | grep "check exit code" | awk '{print $4}')
  key=$(echo "$out" | grep "^violation:" | head -1 | sed 's/.*key=\([^ ]*\).*/\1/')
  if echo "$out" | grep -q "does not apply"; then rc="NOAPPLY"; fi
  echo "$d prop=$prop rc=$rc key=$key"
done
