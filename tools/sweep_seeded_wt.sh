#!/bin/sh
# usage: tools/sweep_seeded_wt.sh <lanes> : try every seeded change against the current tree in throw-away
# worktrees (quick tier), <lanes> at a time; one line per change in /var/tmp/sweep_wt.txt
lanes=${1:-3}
out=/var/tmp/sweep_wt.txt; : > $out
ls -d /verif/seeded/C??-?/ | xargs -n1 basename | xargs -P "$lanes" -I{} sh -c '
  m={}; id=${m%-*}; log=/var/tmp/sweep_wt_$m.out
  /verif/tools/trymutant_wt.sh $id /verif/seeded/$m/patch.diff > $log 2>&1
  if grep -q "patch does not apply" $log; then r=NOAPPLY; elif grep -q "^VIOLATION property=$id " $log; then r=DETECTED; else r="MISSED($(grep "check exit code" $log))"; fi
  echo "$m $r $(grep -m1 "^violation:" $log | cut -c1-110)" >> /var/tmp/sweep_wt.txt'
sort /var/tmp/sweep_wt.txt -o /var/tmp/sweep_wt.txt
grep -vc DETECTED /var/tmp/sweep_wt.txt
