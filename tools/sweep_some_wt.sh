#!/bin/sh
# usage: tools/sweep_some_wt.sh <lanes> <seeded ids...> : like sweep_seeded_wt.sh for the given changes; appends to /var/tmp/sweep_some.txt
lanes=$1; shift
for m in "$@"; do echo $m; done | xargs -P "$lanes" -I{} sh -c '
  m={}; id=${m%-*}; log=/var/tmp/sweep_wt_$m.out
  /verif/tools/trymutant_wt.sh $id /verif/seeded/$m/patch.diff > $log 2>&1
  if grep -q "patch does not apply" $log; then r=NOAPPLY; elif grep -q "^VIOLATION property=$id " $log; then r=DETECTED; else r="MISSED($(grep "check exit code" $log))"; fi
  echo "$m $r $(grep -m1 "^violation:" $log | cut -c1-110)" >> /var/tmp/sweep_some.txt'
