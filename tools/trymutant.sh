#!/bin/sh
# usage: tools/trymutant.sh <property id> <patch file> [extra check args]
# Applies a seeded change to /repo, runs the check, and always restores /repo.
id=$1; patch=$2; shift 2
cd /repo || exit 2
if ! git diff --quiet; then echo "/repo has uncommitted changes"; exit 2; fi
git apply "$patch" || { echo "patch does not apply"; exit 2; }
trap 'git -C /repo checkout -- . ' EXIT
cd /verif && ./check "$id" "$@"
echo "check exit code: $?"
