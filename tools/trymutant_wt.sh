#!/bin/sh
# usage: tools/trymutant_wt.sh <property id> <abs patch file> [extra check args]
# Like trymutant.sh but leaves /repo and /verif/evidence alone: applies the seeded
# change in a throw-away worktree and points the check at it (VERIF_REPO / VERIF_OUT).
id=$1; patch=$2; shift 2
wt=/tmp/wt/try_$$; out=/tmp/tryout_$$
git -C /repo worktree add -q --detach "$wt" HEAD || exit 2
trap 'git -C /repo worktree remove --force "$wt"; rm -rf "$out"' EXIT
git -C "$wt" apply "$patch" || { echo "patch does not apply"; exit 2; }
mkdir -p "$out"
cd /verif && VERIF_REPO="$wt" VERIF_OUT="$out" ./check "$id" "$@"
echo "check exit code: $?"
