#!/bin/sh
# usage: tools/wave2_try.sh <ID> [check id] : try both sub-agent patches of /tmp/seedout2/<ID> in throw-away worktrees
id=$1; cid=${2:-$1}
for k in 1 2; do
  p=/tmp/seedout2/$id/patch$k.diff
  [ -f "$p" ] || continue
  /verif/tools/trymutant_wt.sh $cid $p > /tmp/try_${id}_$k.out 2>&1
  echo "$id patch$k: $(grep -c '^VIOLATION' /tmp/try_${id}_$k.out) VIOLATION lines; $(grep 'check exit code' /tmp/try_${id}_$k.out); $(grep -m1 '^violation:' /tmp/try_${id}_$k.out | cut -c1-160)" >> /tmp/wave2.txt
done
